// icesim: deterministic-simulation checker for blugelabs/ice.
//
//	icesim selftest
//	icesim check  <prop> <quick|thorough>     (spawns shard processes, aggregates, writes evidence)
//	icesim shard  <prop> <tier> <seed> <shard> <shards> <outdir> <statsfile> <budget_s>
//	icesim replay <file>
package main

import (
	"context"
	"encoding/binary"
	"encoding/json"
	"fmt"
	"os"
	"os/exec"
	"path/filepath"
	"runtime"
	"sort"
	"strconv"
	"strings"
	"sync"
	"time"

	"icesim/sim"
)

// verifDir is the directory the machinery lives in: the working directory
// check.sh changes into (normally /verif; a snapshot of it for background runs).
var verifDir = func() string {
	if d := os.Getenv("ICESIM_VERIF_DIR"); d != "" {
		return d
	}
	if d, err := os.Getwd(); err == nil {
		if _, err := os.Stat(filepath.Join(d, "known_findings.json")); err == nil {
			return d
		}
	}
	return "/verif"
}()

func main() {
	if len(os.Args) < 2 {
		usage()
	}
	sim.GoldenDir = filepath.Join(verifDir, "golden")
	os.Setenv("ICESIM_VERIF_DIR", verifDir)
	switch os.Args[1] {
	case "selftest":
		if err := selftest(); err != nil {
			fmt.Fprintln(os.Stderr, "selftest failed:", err)
			os.Exit(2)
		}
		fmt.Println("selftest ok")
	case "xproc-child":
		os.Exit(sim.XProcChild())
	case "shard":
		os.Exit(shardMain(os.Args[2:]))
	case "check":
		os.Exit(checkMain(os.Args[2:]))
	case "replay":
		os.Exit(replayMain(os.Args[2:]))
	case "trace":
		os.Exit(traceMain(os.Args[2:]))
	case "gen-golden":
		os.Exit(goldenMain(os.Args[2:]))
	default:
		usage()
	}
}

func usage() {
	fmt.Fprintln(os.Stderr, "usage: icesim selftest | check <prop> <tier> | shard ... | replay <file>")
	os.Exit(2)
}

func selftest() error {
	if err := sim.SelfTestDataMirror(); err != nil {
		return err
	}
	if err := sim.SelfTestSchedFallbacks(); err != nil {
		return err
	}
	if err := sim.SelfTestMutexPeek(); err != nil {
		return err
	}
	return nil
}

func envSeed() uint64 {
	if s := os.Getenv("VERIF_SEED"); s != "" {
		if v, err := strconv.ParseInt(s, 10, 64); err == nil {
			return uint64(v)
		}
		if v, err := strconv.ParseUint(s, 10, 64); err == nil {
			return v
		}
	}
	return 20260927
}

// ---- shard ------------------------------------------------------------------------

func shardMain(a []string) int {
	if len(a) < 8 {
		usage()
	}
	prop, tier := a[0], a[1]
	seed, _ := strconv.ParseUint(a[2], 10, 64)
	shard, _ := strconv.Atoi(a[3])
	shards, _ := strconv.Atoi(a[4])
	outDir, statsFile := a[5], a[6]
	budgetS, _ := strconv.Atoi(a[7])
	if err := selftest(); err != nil {
		fmt.Fprintln(os.Stderr, "selftest failed:", err)
		return 2
	}
	plan := sim.PlanFor(prop, sim.RaceBuild)
	if plan == nil {
		fmt.Fprintf(os.Stderr, "no plan for property %s\n", prop)
		return 2
	}
	findings, err := sim.LoadFindings(filepath.Join(verifDir, "known_findings.json"))
	if err != nil {
		fmt.Fprintln(os.Stderr, "known_findings.json:", err)
		return 2
	}
	sim.CurrentCaseFile = statsFile + ".current"
	writeStats := func(st *sim.ShardStats) {
		st.HashFiles = map[string]string{}
		b, _ := json.Marshal(st)
		_ = os.WriteFile(statsFile, b, 0o644)
	}
	sim.OnShardAbort = func(st *sim.ShardStats) {
		// the memory watchdog fired: persist what we have and leave at once
		cp := *st
		cp.PerScen = map[string]*sim.ScenStats{"aborted": {Cases: 1}}
		cp.Hashes = nil
		writeStats(&cp)
		fmt.Fprintln(os.Stderr, "memory watchdog: shard aborted, violation recorded")
		os.Exit(1)
	}
	st, err := sim.RunShard(prop, tier, seed, shard, shards, plan, findings, outDir, time.Duration(budgetS)*time.Second)
	if st != nil {
		// hashes go to a side file (binary, 8 bytes each)
		st.HashFiles = map[string]string{}
		for scen, hs := range st.Hashes {
			p := statsFile + "." + scen + ".hashes"
			buf := make([]byte, 8*len(hs))
			for i, h := range hs {
				binary.LittleEndian.PutUint64(buf[8*i:], h)
			}
			_ = os.WriteFile(p, buf, 0o644)
			st.HashFiles[scen] = p
		}
		b, _ := json.Marshal(st)
		_ = os.WriteFile(statsFile, b, 0o644)
	}
	if err != nil {
		fmt.Fprintln(os.Stderr, "HARNESS ERROR:", err)
		return 2
	}
	if len(st.Violation) > 0 {
		return 1
	}
	return 0
}

// ---- check ------------------------------------------------------------------------

type shardOut struct {
	code    int
	stats   *sim.ShardStats
	log     string
	current string // path of the file holding the case the shard was executing
}

func checkMain(a []string) int {
	if len(a) < 2 {
		usage()
	}
	prop, tier := a[0], a[1]
	if tier != "quick" && tier != "thorough" {
		usage()
	}
	seed := envSeed()
	start := time.Now()
	if sim.PlanFor(prop, false) == nil {
		fmt.Fprintf(os.Stderr, "no plan for property %s\n", prop)
		return 2
	}
	shards := 16
	budget := 150
	if tier == "thorough" {
		budget = 3600
	}
	if s := os.Getenv("VERIF_BUDGET_S"); s != "" {
		if v, err := strconv.Atoi(s); err == nil && v > 0 {
			budget = v
		}
	}
	tmp, err := os.MkdirTemp(filepath.Join(verifDir, "bin"), "run-"+prop+"-")
	if err != nil {
		fmt.Fprintln(os.Stderr, err)
		return 2
	}
	defer os.RemoveAll(tmp)
	replayDir := filepath.Join(verifDir, "replays")
	if d := os.Getenv("ICESIM_REPLAY_DIR"); d != "" {
		replayDir = d
	}
	// replay files of earlier runs of this check are stale
	if old, _ := filepath.Glob(filepath.Join(replayDir, "*-by"+prop+"-*.json")); old != nil {
		for _, f := range old {
			os.Remove(f)
		}
	}

	type job struct {
		bin   string
		shard int
		race  bool
	}
	var jobs []job
	for i := 0; i < shards; i++ {
		jobs = append(jobs, job{bin: os.Args[0], shard: i})
	}
	raceBin := os.Getenv("ICESIM_RACE_BIN")
	if raceBin != "" && sim.PlanFor(prop, true) != nil {
		for i := 0; i < shards; i++ {
			jobs = append(jobs, job{bin: raceBin, shard: i, race: true})
		}
	}
	outs := make([]shardOut, len(jobs))
	sem := make(chan struct{}, runtime.NumCPU())
	var wg sync.WaitGroup
	for ji, j := range jobs {
		wg.Add(1)
		go func(ji int, j job) {
			defer wg.Done()
			sem <- struct{}{}
			defer func() { <-sem }()
			tag := "n"
			if j.race {
				tag = "r"
			}
			statsFile := filepath.Join(tmp, fmt.Sprintf("shard-%s-%d.json", tag, j.shard))
			cmd := exec.Command(j.bin, "shard", prop, tier, strconv.FormatUint(seed, 10), strconv.Itoa(j.shard), strconv.Itoa(shards), replayDir, statsFile, strconv.Itoa(budget))
			cmd.Env = append(os.Environ(), "GORACE=halt_on_error=0 log_path="+filepath.Join(tmp, fmt.Sprintf("race-%d", j.shard)))
			out, err := cmd.CombinedOutput()
			o := shardOut{log: string(out), current: statsFile + ".current"}
			if err != nil {
				if ee, ok := err.(*exec.ExitError); ok {
					o.code = ee.ExitCode()
				} else {
					o.code = 2
				}
			}
			if b, err := os.ReadFile(statsFile); err == nil {
				st := &sim.ShardStats{}
				if json.Unmarshal(b, st) == nil {
					st.Hashes = map[string][]uint64{}
					for scen, p := range st.HashFiles {
						if hb, err := os.ReadFile(p); err == nil {
							for k := 0; k+8 <= len(hb); k += 8 {
								st.Hashes[scen] = append(st.Hashes[scen], binary.LittleEndian.Uint64(hb[k:]))
							}
						}
					}
					o.stats = st
				}
			}
			outs[ji] = o
		}(ji, j)
	}
	wg.Wait()

	// aggregate
	agg := map[string]*sim.ScenStats{}
	distinct := map[string]map[uint64]struct{}{}
	known := map[string]int{}
	var violations, vioProps []string
	var samples []json.RawMessage
	hard := false
	crashed := 0
	peakRSS := 0
	for ji, o := range outs {
		if (o.code != 0 && o.code != 1) || o.stats == nil {
			// the shard died. If the Go runtime reports a fatal error or an
			// unrecovered panic whose dump contains frames of the code under test,
			// the case it was executing is reported as a violation (unshrunk);
			// anything else is harness trouble.
			v := crashVerdict(prop, o.log, o.current, replayDir, seed, jobs[ji].shard)
			if v == "" {
				// no dump (e.g. killed by the kernel for lack of memory while 16 shards
				// were running): a verdict needs a reproduction - the case is executed
				// again, alone, in a fresh process with the memory watchdog
				v = isolatedVerdict(prop, jobs[ji].bin, o.current, replayDir, seed, jobs[ji].shard)
			}
			if v != "" {
				violations = append(violations, v)
				vioProps = append(vioProps, prop)
				crashed++
				if o.stats == nil {
					continue
				}
			} else {
				hard = true
				fmt.Fprintf(os.Stderr, "shard %d exited %d:\n%s\n...\n%s\n", jobs[ji].shard, o.code, head(o.log, 1500), tail(o.log, 2500))
				// keep the whole log and the case: harness trouble must be diagnosable
				_ = os.MkdirAll(replayDir, 0o755)
				lp := filepath.Join(replayDir, fmt.Sprintf("harness-error-%s-%d-%d.log", prop, seed, jobs[ji].shard))
				_ = os.WriteFile(lp, []byte(o.log), 0o644)
				if b, err := os.ReadFile(o.current); err == nil {
					_ = os.WriteFile(lp+".case.json", b, 0o644)
				}
				fmt.Fprintf(os.Stderr, "(complete shard log: %s)\n", lp)
				if o.stats == nil {
					continue
				}
			}
		}
		if strings.Contains(o.log, "WARNING: DATA RACE") {
			// race reports are handled inside the shard; anything printed to the
			// console here means the log_path redirection failed
			fmt.Fprintf(os.Stderr, "shard %d: unexpected race output on console\n", jobs[ji].shard)
		}
		for scen, ss := range o.stats.PerScen {
			key := scen
			if jobs[ji].race {
				key = scen + "[race-build]"
			}
			t := agg[key]
			if t == nil {
				t = &sim.ScenStats{Probes: map[string]int{}, Faults: map[string]int{}, FaultsCfg: map[string]int{}}
				agg[key] = t
				distinct[key] = map[uint64]struct{}{}
			}
			t.Cases += ss.Cases
			t.SubRuns += ss.SubRuns
			t.Events += ss.Events
			t.Yields += ss.Yields
			t.Switches += ss.Switches
			t.Skipped += ss.Skipped
			t.Scheds += ss.Scheds
			t.Shapes += ss.Shapes
			for k, v := range ss.Probes {
				t.Probes[k] += v
			}
			for k, v := range ss.Faults {
				t.Faults[k] += v
			}
			for k, v := range ss.FaultsCfg {
				t.FaultsCfg[k] += v
			}
			for _, h := range o.stats.Hashes[scen] {
				distinct[key][h] = struct{}{}
			}
		}
		if v, ok := o.stats.Extra["peak_rss_mib"].(float64); ok && int(v) > peakRSS {
			peakRSS = int(v)
		}
		for k, v := range o.stats.Known {
			known[k] += v
		}
		violations = append(violations, o.stats.Violation...)
		vioProps = append(vioProps, o.stats.VioProps...)
		samples = append(samples, o.stats.Samples...)
	}
	wall := time.Since(start).Seconds()

	evaluations, nontrivial, subruns, events, switches, yields, skipped, scheds, shapes := 0, 0, 0, 0, 0, 0, 0, 0, 0
	var rules []string
	for key, t := range agg {
		t.NonTrivial = len(distinct[key])
		evaluations += t.Cases
		nontrivial += t.NonTrivial
		subruns += t.SubRuns
		events += t.Events
		switches += t.Switches
		yields += t.Yields
		skipped += t.Skipped
		scheds += t.Scheds
		shapes += t.Shapes
		base := strings.TrimSuffix(key, "[race-build]")
		if sc := sim.Scenarios[base]; sc != nil && !strings.HasSuffix(key, "[race-build]") {
			rules = append(rules, base+": "+sc.Rule)
		}
	}
	sort.Strings(rules)
	sort.SliceStable(samples, func(i, j int) bool { return len(samples[i]) < len(samples[j]) })
	if len(samples) > 3 {
		// the smallest one and two mid-sized ones
		samples = []json.RawMessage{samples[0], samples[len(samples)/2], samples[len(samples)*3/4]}
	}
	sampleVals := make([]interface{}, 0, len(samples))
	for _, s := range samples {
		var v interface{}
		if json.Unmarshal(s, &v) == nil {
			sampleVals = append(sampleVals, v)
		}
	}
	level := sim.LevelOf(prop)
	cov := map[string]interface{}{
		"evaluations":                  evaluations,
		"distinct_nontrivial":          nontrivial,
		"rule":                         "cases are drawn by pgregory.net/rapid from the seed (16 shards, sub-seed = H(seed, property, scenario, shard)); " + strings.Join(rules, " | "),
		"samples":                      sampleVals,
		"workload_executions":          subruns,
		"seam_events_logical_time":     events,
		"yield_points":                 yields,
		"task_switches":                switches,
		"yields_suppressed_under_lock": skipped,
		"distinct_schedules":           scheds,
		"distinct_world_shapes":        shapes,
		"per_scenario":                 agg,
		"runs_per_hour":                int(float64(evaluations) / wall * 3600),
		"shards":                       shards,
		"peak_resident_mib_per_shard":  peakRSS,
		"known_findings_observed":      known,
		"components_real":              []string{"github.com/blugelabs/ice/v2 from /repo working tree (tag verif adds exports only)", "bluge_segment_api", "roaring", "vellum", "klauspost/compress zstd"},
		"components_stubbed":           []string{"disk: SimReaderAt/SimWriter instead of os.File/mmap", "analysis pipeline: generated segment.Document values", "goroutine choice: baton scheduler", "Bluge index layer: not present (lifecycle scenario stands in where used)"},
	}
	if level == "fault_enumeration" {
		cov["exhaustive"] = evaluations > 0 && !hard
		cov["exhaustive_scope"] = "scenarios persist-fault and read-fault: the fault space of each generated workload (every byte offset of a failing writer / every storage-read index incl. the reads of Load x 5 error kinds / every cancellation point) is enumerated completely; the workloads themselves are sampled. Other scenarios in per_scenario (read-fault-large: 30-80 evenly spread fault positions per workload; lifecycle: one drawn fault per step) are sampled, not enumerated"
	}
	ev := map[string]interface{}{
		"property_id": prop,
		"tier":        tier,
		"seed":        int64(seed),
		"level":       level,
		"coverage":    cov,
		"assumptions": sim.AssumptionsFor(prop),
		"wall_s":      wall,
		"violations":  len(violations),
	}
	if !hard || len(violations) > 0 {
		b, _ := json.MarshalIndent(ev, "", " ")
		// evaluations of deliberately broken trees (tools/eval_mutant.sh) must
		// not overwrite the evidence of the real tree
		evDir := filepath.Join(verifDir, "evidence")
		if d := os.Getenv("ICESIM_EVIDENCE_DIR"); d != "" {
			evDir = d
		}
		_ = os.MkdirAll(evDir, 0o755)
		if err := os.WriteFile(filepath.Join(evDir, prop+".json"), b, 0o644); err != nil {
			fmt.Fprintln(os.Stderr, err)
			return 2
		}
	}
	for _, k := range sortedKeys(known) {
		fmt.Printf("KNOWN-FINDING: %s (observed %d times)\n", k, known[k])
	}
	fmt.Printf("check %s %s seed=%d: %d cases (%d distinct non-trivial), %d workload executions, %d seam events, %d switches, %.1fs\n",
		prop, tier, seed, evaluations, nontrivial, subruns, events, switches, wall)
	if hard && len(violations) == 0 {
		fmt.Fprintln(os.Stderr, "HARNESS ERROR: at least one shard failed without a verdict")
		return 2
	}
	if hard {
		// some shards produced replayable verdicts, others died without one
		// (typically collateral damage of the same memory exhaustion): the
		// verdicts stand, the dead shards are reported on stderr only
		fmt.Fprintln(os.Stderr, "note: at least one shard died without a verdict of its own; the violations below come from the other shards")
	}
	if evaluations == 0 && crashed == 0 {
		fmt.Fprintln(os.Stderr, "HARNESS ERROR: no case was executed")
		return 2
	}
	if len(violations) > 0 {
		seen := map[string]bool{}
		for i, v := range violations {
			if seen[v] {
				continue
			}
			seen[v] = true
			fmt.Printf("VIOLATION property=%s replay=%s\n", vioProps[i], v)
			if b, err := os.ReadFile(v); err == nil {
				var rp sim.Replay
				if json.Unmarshal(b, &rp) == nil && rp.Verdict != nil {
					fmt.Printf("  %s\n", rp.Verdict.String())
				}
			}
		}
		return 1
	}
	return 0
}

func sortedKeys(m map[string]int) []string {
	ks := make([]string, 0, len(m))
	for k := range m {
		ks = append(ks, k)
	}
	sort.Strings(ks)
	return ks
}

func head(s string, n int) string {
	if len(s) > n {
		return s[:n] + "..."
	}
	return s
}

// crashVerdict turns a dead shard into a violation when the runtime's dump shows
// that the code under test was involved; it returns the replay path or "".
func crashVerdict(prop, log, currentFile, replayDir string, seed uint64, shard int) string {
	reason := ""
	for _, line := range strings.Split(log, "\n") {
		if strings.HasPrefix(line, "fatal error:") || strings.HasPrefix(line, "panic:") {
			reason = line
			break
		}
	}
	if reason == "" || !strings.Contains(log, "github.com/blugelabs/ice/v2.") {
		return ""
	}
	if strings.Contains(reason, "HARNESS") || strings.Contains(log, "HARNESS ERROR") {
		return ""
	}
	b, err := os.ReadFile(currentFile)
	if err != nil {
		return ""
	}
	var rp sim.Replay
	if json.Unmarshal(b, &rp) != nil || rp.Case == nil {
		return ""
	}
	site := "runtime"
	for _, line := range strings.Split(log, "\n") {
		if strings.HasPrefix(line, "github.com/blugelabs/ice/v2.") {
			site = strings.TrimPrefix(line, "github.com/blugelabs/ice/v2.")
			if i := strings.Index(site, "("); i > 0 && !strings.HasPrefix(site, "(") {
				site = site[:i]
			} else if i := strings.LastIndex(site, "("); i > 0 {
				site = site[:i]
			}
			break
		}
	}
	rp.Verdict = &sim.Fail{Prop: prop, Oracle: "process", Kind: "crash", Site: site,
		Detail: "the shard process died while executing this case: " + reason + "\n" + head(log, 3000)}
	rp.Property = prop
	path := filepath.Join(replayDir, fmt.Sprintf("%s-by%s-%s-%d-%d.json", prop, prop, rp.Scenario, seed, shard))
	out, _ := json.MarshalIndent(&rp, "", " ")
	_ = os.MkdirAll(replayDir, 0o755)
	if os.WriteFile(path, out, 0o644) != nil {
		return ""
	}
	return path
}

// isolatedVerdict re-executes the case a dead shard was running, alone. It returns
// a replay path when the case reproducibly blows up (memory watchdog, fatal
// runtime error or panic with frames of the code under test), "" otherwise.
func isolatedVerdict(prop, bin, currentFile, replayDir string, seed uint64, shard int) string {
	if _, err := os.Stat(currentFile); err != nil {
		return ""
	}
	// bounded: a case that makes the code under test spin must not hang the check
	ctx, cancel := context.WithTimeout(context.Background(), 15*time.Minute)
	defer cancel()
	cmd := exec.CommandContext(ctx, bin, "replay", currentFile)
	cmd.Env = append(os.Environ(), "GORACE=halt_on_error=0")
	out, err := cmd.CombinedOutput()
	log := string(out)
	code := 0
	if ee, ok := err.(*exec.ExitError); ok {
		code = ee.ExitCode()
	}
	if code == 1 && strings.Contains(log, "memory blow-up reproduced") {
		b, err := os.ReadFile(currentFile)
		if err != nil {
			return ""
		}
		var rp sim.Replay
		if json.Unmarshal(b, &rp) != nil || rp.Case == nil {
			return ""
		}
		rp.Verdict = &sim.Fail{Prop: prop, Oracle: "memory", Kind: "memory-blowup", Site: rp.Scenario,
			Detail: "the shard process died while executing this case; executed again alone in a fresh process the case filled more than 24 GiB of resident memory:\n" + head(log, 1500)}
		path := filepath.Join(replayDir, fmt.Sprintf("%s-by%s-%s-%d-%d.json", prop, prop, rp.Scenario, seed, shard))
		o2, _ := json.MarshalIndent(&rp, "", " ")
		_ = os.MkdirAll(replayDir, 0o755)
		if os.WriteFile(path, o2, 0o644) != nil {
			return ""
		}
		return path
	}
	if code != 0 && code != 1 {
		return crashVerdict(prop, log, currentFile, replayDir, seed, shard)
	}
	return ""
}

func tail(s string, n int) string {
	if len(s) > n {
		return "..." + s[len(s)-n:]
	}
	return s
}

// ---- replay -----------------------------------------------------------------------

func replayMain(a []string) int {
	if len(a) < 1 {
		usage()
	}
	if err := selftest(); err != nil {
		fmt.Fprintln(os.Stderr, "selftest failed:", err)
		return 2
	}
	b, err := os.ReadFile(a[0])
	if err != nil {
		fmt.Fprintln(os.Stderr, err)
		return 2
	}
	var rp sim.Replay
	if err := json.Unmarshal(b, &rp); err != nil {
		fmt.Fprintln(os.Stderr, "bad replay file:", err)
		return 2
	}
	if rp.Verdict != nil && rp.Verdict.Kind == "race" && !sim.RaceBuild {
		// race verdicts replay in the -race build of the engine
		raceBin := filepath.Join(verifDir, "bin", "icesim-race")
		logp := filepath.Join(verifDir, "bin", fmt.Sprintf("replay-race-%d", os.Getpid()))
		cmd := exec.Command(raceBin, "replay", a[0])
		cmd.Env = append(os.Environ(), "GORACE=halt_on_error=0 log_path="+logp)
		cmd.Stdout, cmd.Stderr = os.Stdout, os.Stderr
		err := cmd.Run()
		if m, _ := filepath.Glob(logp + ".*"); m != nil {
			for _, f := range m {
				os.Remove(f)
			}
		}
		if err != nil {
			if ee, ok := err.(*exec.ExitError); ok {
				return ee.ExitCode()
			}
			fmt.Fprintln(os.Stderr, err)
			return 2
		}
		return 0
	}
	env := &sim.Env{Prop: rp.Check, Tier: "replay"}
	limit := uint64(24) << 30
	if sim.RaceBuild {
		limit = 40 << 30
	}
	sim.WatchMemory(limit, func(mib uint64) {
		fmt.Printf("VIOLATION property=%s replay=%s\n", rp.Property, a[0])
		fmt.Printf("  memory blow-up reproduced: the process grew to %d MiB while replaying the case (recorded: %s)\n", mib, rp.Verdict.Class())
		os.Exit(1)
	})
	res, herr := sim.Execute(rp.Case, env)
	if herr != nil {
		fmt.Fprintln(os.Stderr, "HARNESS ERROR:", herr)
		return 2
	}
	trace := fmt.Sprintf("%016x", res.Trace)
	if res.Fail == nil {
		fmt.Printf("replay %s: no violation (recorded: %s)\n", a[0], rp.Verdict.Class())
		return 0
	}
	same := rp.Verdict != nil && res.Fail.Class() == rp.Verdict.Class()
	fmt.Printf("VIOLATION property=%s replay=%s\n", res.Fail.Prop, a[0])
	fmt.Printf("  %s\n", res.Fail.String())
	fmt.Printf("  same violation class as recorded: %v; trace hash %s (recorded %s, match=%v)\n", same, trace, rp.Trace, trace == rp.Trace)
	return 1
}
