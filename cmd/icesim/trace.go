package main

import (
	"fmt"
	"os"
	"strconv"

	"pgregory.net/rapid"

	"icesim/sim"
)

// traceMain: icesim trace <prop> <scenario> <seed> <n>
// Generates n cases from consecutive seeds, executes each and prints one line
// per case: case hash, trace hash (every seam event with task id, kind and
// argument), schedule signature, verdict class. Used by the determinism
// self-test: the output must be identical across processes, GOMAXPROCS values
// and builds.
func traceMain(a []string) int {
	if len(a) < 4 {
		usage()
	}
	prop, scen := a[0], a[1]
	seed, _ := strconv.Atoi(a[2])
	n, _ := strconv.Atoi(a[3])
	sc := sim.Scenarios[scen]
	if sc == nil {
		fmt.Fprintln(os.Stderr, "unknown scenario", scen)
		return 2
	}
	if err := selftest(); err != nil {
		fmt.Fprintln(os.Stderr, err)
		return 2
	}
	env := &sim.Env{Prop: prop, Tier: "trace"}
	gen := rapid.Custom(func(t *rapid.T) *sim.Case { c := sc.Gen(t, prop); c.Scen = sc.Name; return c })
	for i := 0; i < n; i++ {
		c := gen.Example(seed*100000 + i + 1)
		res, err := sim.Execute(c, env)
		if err != nil {
			fmt.Fprintln(os.Stderr, "HARNESS ERROR:", err)
			return 2
		}
		class := "ok"
		if res.Fail != nil {
			class = res.Fail.Class()
		}
		if res.Probes[sim.ProbeFreeRun] > 0 {
			// the schedule was abandoned (a task blocked on a lock whose holder was
			// parked): from there on the run is not a function of the case
			fmt.Printf("%s %s %d case=%016x trace=free-running %s\n", prop, scen, i, sim.CaseHash(c), class)
			continue
		}
		fmt.Printf("%s %s %d case=%016x trace=%016x sched=%016x events=%d switches=%d subruns=%d %s\n", prop, scen, i, sim.CaseHash(c), res.Trace, res.SchedSig, res.Events, res.Switches, res.SubRuns, class)
	}
	return 0
}
