package main

import "fmt"

func goldenMain(a []string) int {
	fmt.Println("not implemented yet")
	return 2
}
