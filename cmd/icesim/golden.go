package main

import (
	"fmt"
	"os"
	"path/filepath"

	"pgregory.net/rapid"

	"icesim/model"
	"icesim/sim"
)

// goldenMain regenerates the golden corpus with the frozen REFERENCE writer
// (never the code under test). Run by hand once; the corpus is committed.
func goldenMain(a []string) int {
	if err := os.MkdirAll(sim.GoldenDir, 0o755); err != nil {
		fmt.Fprintln(os.Stderr, err)
		return 2
	}
	old, _ := filepath.Glob(filepath.Join(sim.GoldenDir, "*"))
	for _, f := range old {
		os.Remove(f)
	}
	n := 0
	total := 0
	for seed := 1; seed <= 400 && n < 48; seed++ {
		o := sim.WorldOpts{MinBuilds: 1, MaxBuilds: 3, MaxMerges: 2, BigPct: 0, AllowNoID: true, MoreDV: true, MaxTinyDocs: 8}
		if seed%9 == 0 {
			o.BigPct, o.HugePct, o.MaxBuilds, o.MaxMerges = 100, 50, 1, 1
		}
		gen := rapid.Custom(func(t *rapid.T) *sim.WorldDef { return sim.GenWorld(t, o) })
		wd := gen.Example(seed)
		sched := sim.NewSched(nil)
		w, fail := sim.BuildWorldWith(sim.RefImpl, "C10", wd, sched)
		if fail != nil {
			fmt.Fprintln(os.Stderr, "reference build failed:", fail)
			return 2
		}
		for _, ws := range w.Segs {
			if len(ws.Docs) == 0 && seed%5 != 0 {
				continue // keep only a few empty ones
			}
			if len(ws.Bytes) > 400000 {
				continue
			}
			seg, _, _, pi, err := sim.LoadViewWith(sim.RefImpl, ws.Bytes, sim.StoreMem, sched)
			if pi != nil || err != nil {
				fmt.Fprintln(os.Stderr, "reference load failed", pi, err)
				return 2
			}
			obs, f := sim.Observe("C10", seg, sim.ObsOpts{})
			if f != nil {
				fmt.Fprintln(os.Stderr, "reference observe failed:", f)
				return 2
			}
			if d := model.Diff(obs, ws.Exp()); d != "" {
				fmt.Fprintf(os.Stderr, "seed %d seg %d: reference observation differs from the model: %s\n", seed, ws.Idx, d)
				return 2
			}
			kind := "built"
			if ws.Kind == model.Merged {
				kind = "merged"
			}
			base := filepath.Join(sim.GoldenDir, fmt.Sprintf("g%03d-s%d-%s-%ddocs-mode%d", seed, ws.Idx, kind, len(ws.Docs), sim.MergeModeOrBuild(ws)))
			if err := os.WriteFile(base+".ice", ws.Bytes, 0o644); err != nil {
				fmt.Fprintln(os.Stderr, err)
				return 2
			}
			if err := sim.WriteGz(base+".obs.json.gz", obs); err != nil {
				fmt.Fprintln(os.Stderr, err)
				return 2
			}
			n++
			total += len(ws.Bytes)
		}
	}
	fmt.Printf("golden corpus: %d files, %d bytes of segment data\n", n, total)
	return 0
}
