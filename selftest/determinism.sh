#!/bin/bash
# Determinism self-test: the same (property, scenario, seed) must give the
# identical sequence of cases, seam-event traces, schedules and verdicts in
# fresh processes under GOMAXPROCS 1, 4 and 16, and (for the scheduler-driven
# scenarios) in the -race build. Any divergence is exit 2.
#   selftest/determinism.sh [seeds-per-scenario] [cases-per-seed]
cd "$(dirname "$0")/.." || exit 2
SEEDS=${1:-6}; N=${2:-40}
BIN=./bin/icesim; RBIN=./bin/icesim-race
[ -x $BIN ] || { echo "run ./check.sh setup first" >&2; exit 2; }
tmp=$(mktemp -d /verif/bin/det-XXXXXX); trap 'rm -rf $tmp' EXIT
pairs="C03:lifecycle C12:merge-read-fault C14:fresh-process C16:giant C11:aligned C19:read-fault-large C01:world C02:world C03:world C04:world C11:world C16:world C05:nav C06:stored C07:docvalues C08:dictionary C09:concurrent C10:interop C10:golden C12:persist-fault C13:reuse C14:build-history C15:immutability C17:tree C18:dmt C19:read-fault"
fail=0; total=0
run() { # bin gomaxprocs prop scen seed n out
  GOMAXPROCS=$2 GORACE="halt_on_error=0 log_path=$tmp/race" $1 trace $3 $4 $5 $6 > $7 2>$7.err || { echo "trace failed: $*"; cat $7.err | tail -5; fail=1; }
}
for pair in $pairs; do
  prop=${pair%%:*}; scen=${pair##*:}
  n=$N; case $scen in persist-fault|read-fault|read-fault-large) n=$((N/8+1));; giant|aligned) n=2;; esac
  for seed in $(seq 1 $SEEDS); do
    (
      run $BIN 1 $prop $scen $seed $n $tmp/$prop-$scen-$seed.g1
      run $BIN 4 $prop $scen $seed $n $tmp/$prop-$scen-$seed.g4
      run $BIN 16 $prop $scen $seed $n $tmp/$prop-$scen-$seed.g16
      case $scen in concurrent|build-history)
        [ -x $RBIN ] && run $RBIN 16 $prop $scen $seed $((n/2)) $tmp/$prop-$scen-$seed.race ;;
      esac
    ) &
    while [ $(jobs -r | wc -l) -ge 16 ]; do sleep 0.1; done
  done
done
wait
for pair in $pairs; do
  prop=${pair%%:*}; scen=${pair##*:}
  for seed in $(seq 1 $SEEDS); do
    b=$tmp/$prop-$scen-$seed
    total=$((total+1))
    cmp -s $b.g1 $b.g4 && cmp -s $b.g1 $b.g16 || { echo "NONDETERMINISTIC: $prop $scen seed $seed"; diff $b.g1 $b.g16 | head -4; fail=1; }
    [ -s $b.g1 ] || { echo "EMPTY trace: $prop $scen seed $seed"; fail=1; }
    if [ -f $b.race ]; then
      head -$(wc -l < $b.race) $b.g1 | cmp -s - $b.race || { echo "NONDETERMINISTIC (race build vs normal build): $prop $scen seed $seed"; diff <(head -$(wc -l < $b.race) $b.g1) $b.race | head -4; fail=1; }
    fi
  done
done
lines=$(cat $tmp/*.g1 | wc -l)
if [ $fail -ne 0 ]; then echo "determinism self-test FAILED"; exit 2; fi
echo "determinism self-test ok: $total (property,scenario,seed) triples x 3 GOMAXPROCS values (+race build for scheduled scenarios), $lines case executions compared line by line"
