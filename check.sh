#!/bin/bash
# Entry point for every registered check.
#   ./check.sh setup
#   ./check.sh <Cxx> <quick|thorough>
#   ./check.sh replay <file>
# Exit 0: property held on everything explored; 1: VIOLATION line printed;
# 2: build / harness trouble (never a verdict).
cd "$(dirname "$0")" || exit 2
export GOFLAGS=-mod=mod GOPROXY=off GOSUMDB=off GOTOOLCHAIN=local CGO_ENABLED=1
mkdir -p bin evidence replays

build() {
  # rebuild from /repo's current working tree (the replace directive points there)
  go build -tags verif -o bin/icesim ./cmd/icesim || { echo "BUILD FAILED (normal build)" >&2; exit 2; }
}
build_race() {
  go build -race -tags verif -o bin/icesim-race ./cmd/icesim || { echo "BUILD FAILED (race build)" >&2; exit 2; }
}

case "$1" in
  setup)
    build
    build_race
    ./bin/icesim selftest || exit 2
    ./bin/icesim-race selftest || exit 2
    ;;
  replay)
    build
    if grep -q '"kind": "race"' "$2" 2>/dev/null; then build_race; fi
    exec ./bin/icesim replay "$2"
    ;;
  C*)
    build
    case "$1" in
      C09|C12|C14|C19) build_race; export ICESIM_RACE_BIN="$PWD/bin/icesim-race" ;;
    esac
    exec ./bin/icesim check "$1" "${2:-quick}"
    ;;
  *)
    echo "usage: $0 setup | <Cxx> <quick|thorough> | replay <file>" >&2
    exit 2
    ;;
esac
