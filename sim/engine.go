package sim

import (
	"encoding/json"
	"flag"
	"fmt"
	"hash/fnv"
	"os"
	"path/filepath"
	"runtime"
	"runtime/metrics"
	"sort"
	"strconv"
	"strings"
	"sync/atomic"
	"testing"
	"time"

	"pgregory.net/rapid"
)

// ---- case / scenario / result ------------------------------------------------------

// Case is the explicit, self-contained description of one simulated run: it
// is the replay file's payload and run(Case) is a pure function of it and the
// code under test.
type Case struct {
	Scen  string    `json:"scen"`
	World *WorldDef `json:"world,omitempty"`
	Sched []int     `json:"sched,omitempty"`

	Nav     *NavCase        `json:"nav,omitempty"`
	Visits  *VisitCase      `json:"visits,omitempty"`
	DictQ   *DictCase       `json:"dictq,omitempty"`
	DVQ     *DVCase         `json:"dvq,omitempty"`
	Reuse   *ReuseCase      `json:"reuse,omitempty"`
	DMT     *DMTCase        `json:"dmt,omitempty"`
	Hist    *HistCase       `json:"hist,omitempty"`
	Tree    *TreeCase       `json:"tree,omitempty"`
	Conc    *ConcCase       `json:"conc,omitempty"`
	PFault  *PFaultCase     `json:"pfault,omitempty"`
	RFault  *RFaultCase     `json:"rfault,omitempty"`
	BuildH  *BuildHCase     `json:"buildh,omitempty"`
	Interop *InteropCase    `json:"interop,omitempty"`
	Life    *LifeCase       `json:"life,omitempty"`
	Special *SpecialCase    `json:"special,omitempty"`
	MFault  *MergeFaultCase `json:"mfault,omitempty"`
}

type Env struct {
	Prop string // property under check: selects the oracles a scenario applies
	Tier string
}

// Result of executing one case.
type Result struct {
	Fail       *Fail
	NonTrivial bool
	Probes     map[string]int // "this condition was reached" counters
	Faults     map[string]int // fault kind -> fired
	FaultsCfg  map[string]int // fault kind -> configured
	SubRuns    int            // executions of the workload inside this case (fault enumerations)
	Events     int            // seam events (logical time)
	Yields     int
	Switches   int
	Skipped    int
	Trace      uint64
	SchedSig   uint64
	Shape      uint64 // hash of the world shape reached (for "distinct states" accounting)
}

func (r *Result) probe(name string) {
	if r.Probes == nil {
		r.Probes = map[string]int{}
	}
	r.Probes[name]++
}

func (r *Result) probeN(name string, n int) {
	if n <= 0 {
		return
	}
	if r.Probes == nil {
		r.Probes = map[string]int{}
	}
	r.Probes[name] += n
}

func (r *Result) fault(kind string, configured, fired int) {
	if r.Faults == nil {
		r.Faults = map[string]int{}
		r.FaultsCfg = map[string]int{}
	}
	r.Faults[kind] += fired
	r.FaultsCfg[kind] += configured
}

// ProbeFreeRun marks runs whose schedule was abandoned (see Sched.Run).
const ProbeFreeRun = "scheduler-fell-back-to-free-running"

func (r *Result) absorb(s *Sched) {
	r.Events += s.Events
	r.Yields += s.Yields
	r.Switches += s.Switches
	r.Skipped += s.Skipped
	r.Trace = r.Trace*1099511628211 ^ s.Trace
	r.SchedSig = r.SchedSig*1099511628211 ^ s.SchedSig
	if s.FreeRuns > 0 {
		r.probeN(ProbeFreeRun, s.FreeRuns)
	}
	if s.UnderLockSw > 0 {
		r.probeN("task-parked-inside-a-critical-section", s.UnderLockSw)
	}
	if s.ForeignEvents > 0 {
		r.probe("seam-events-from-goroutines-started-by-the-code-under-test")
	}
}

type Scenario struct {
	Name string
	Rule string // what makes a case non-trivial
	Gen  func(t *rapid.T, prop string) *Case
	Run  func(c *Case, env *Env) *Result
}

var Scenarios = map[string]*Scenario{}

func register(s *Scenario) { Scenarios[s.Name] = s }

// PlanItem: how many cases of a scenario a property's check runs per tier.
type PlanItem struct {
	Scen     string
	Quick    int
	Thorough int
}

// ---- known findings ----------------------------------------------------------------

type Finding struct {
	Property string `json:"property"`
	Oracle   string `json:"oracle"`
	Kind     string `json:"kind"`
	Site     string `json:"site,omitempty"`
	Status   string `json:"status"` // open | fixed
	Commit   string `json:"commit,omitempty"`
	What     string `json:"what"`
}

type Findings struct {
	Findings []Finding `json:"findings"`
}

func LoadFindings(path string) (*Findings, error) {
	f := &Findings{}
	b, err := os.ReadFile(path)
	if err != nil {
		if os.IsNotExist(err) {
			return f, nil
		}
		return nil, err
	}
	if err := json.Unmarshal(b, f); err != nil {
		return nil, err
	}
	return f, nil
}

// Match returns the open finding covering the violation, if any. Fixed
// entries never match.
func (fs *Findings) Match(f *Fail) *Finding {
	for i := range fs.Findings {
		k := &fs.Findings[i]
		if k.Status != "open" {
			continue
		}
		if k.Property == f.Prop && k.Oracle == f.Oracle && k.Kind == f.Kind && (k.Site == "" || k.Site == f.Site) {
			return k
		}
	}
	return nil
}

// ---- replay files ------------------------------------------------------------------

type Replay struct {
	Property string `json:"property"` // home property of the violated oracle
	Check    string `json:"check"`    // property whose check found it
	Scenario string `json:"scenario"`
	Seed     uint64 `json:"seed"`
	Shard    int    `json:"shard"`
	Case     *Case  `json:"case"`
	Verdict  *Fail  `json:"verdict"`
	Trace    string `json:"trace_hash"`
	Minimal  bool   `json:"minimised"`
}

func CaseHash(c *Case) uint64 {
	b, err := json.Marshal(c)
	if err != nil {
		panic(err)
	}
	h := fnv.New64a()
	h.Write(b)
	return h.Sum64()
}

// Execute runs one case, converting harness panics into a hard error.
func Execute(c *Case, env *Env) (res *Result, harnessErr error) {
	sc := Scenarios[c.Scen]
	if sc == nil {
		return nil, fmt.Errorf("unknown scenario %q", c.Scen)
	}
	defer func() {
		if r := recover(); r != nil {
			if hp, ok := r.(*HarnessPanic); ok {
				harnessErr = fmt.Errorf("harness panic: %s\n%s", hp.Msg, hp.Stack)
				return
			}
			panic(r)
		}
	}()
	res = sc.Run(c, env)
	// race build: whatever the scenario, a data race involving the code under
	// test that the detector saw during the case is a violation (C09: "no
	// unsynchronised memory access") - e.g. a goroutine left behind by a failed
	// call that keeps writing to an iterator the caller is using again
	if RaceBuild && res != nil && res.Fail == nil {
		if f := raceVerdict("C09"); f != nil {
			res.Fail = f
		}
	}
	return res, nil
}

// ---- shard runner ------------------------------------------------------------------

// ShardStats is what one shard process reports.
type ShardStats struct {
	Prop      string                 `json:"prop"`
	Tier      string                 `json:"tier"`
	Shard     int                    `json:"shard"`
	Seed      uint64                 `json:"seed"`
	PerScen   map[string]*ScenStats  `json:"per_scenario"`
	Violation []string               `json:"violations,omitempty"` // replay paths
	VioProps  []string               `json:"violation_props,omitempty"`
	Known     map[string]int         `json:"known,omitempty"` // finding "what" -> times observed
	WallS     float64                `json:"wall_s"`
	Samples   []json.RawMessage      `json:"samples,omitempty"`
	Hashes    map[string][]uint64    `json:"-"`
	HashFiles map[string]string      `json:"hash_files,omitempty"`
	Extra     map[string]interface{} `json:"extra,omitempty"`
}

type ScenStats struct {
	Cases      int            `json:"cases"`
	NonTrivial int            `json:"nontrivial"`
	SubRuns    int            `json:"subruns"`
	Events     int            `json:"events"`
	Yields     int            `json:"yields"`
	Switches   int            `json:"switches"`
	Skipped    int            `json:"yields_suppressed_under_lock"`
	Probes     map[string]int `json:"probes,omitempty"`
	Faults     map[string]int `json:"faults_fired,omitempty"`
	FaultsCfg  map[string]int `json:"faults_configured,omitempty"`
	Scheds     int            `json:"distinct_schedules"`
	Shapes     int            `json:"distinct_shapes"`
	scheds     map[uint64]struct{}
	shapes     map[uint64]struct{}
}

type quietTB struct {
	failed bool
	msgs   []string
}

type failNow struct{}

func (q *quietTB) Helper()                          {}
func (q *quietTB) Name() string                     { return "icesim" }
func (q *quietTB) Logf(f string, a ...interface{})  {}
func (q *quietTB) Log(a ...interface{})             {}
func (q *quietTB) Skipf(f string, a ...interface{}) {}
func (q *quietTB) Skip(a ...interface{})            {}
func (q *quietTB) SkipNow()                         {}
func (q *quietTB) Errorf(f string, a ...interface{}) {
	q.failed = true
	q.msgs = append(q.msgs, fmt.Sprintf(f, a...))
}
func (q *quietTB) Error(a ...interface{})            { q.failed = true; q.msgs = append(q.msgs, fmt.Sprint(a...)) }
func (q *quietTB) Fatalf(f string, a ...interface{}) { q.Errorf(f, a...); panic(failNow{}) }
func (q *quietTB) Fatal(a ...interface{})            { q.Error(a...); panic(failNow{}) }
func (q *quietTB) FailNow()                          { q.failed = true; panic(failNow{}) }
func (q *quietTB) Fail()                             { q.failed = true }
func (q *quietTB) Failed() bool                      { return q.failed }

var rapidInit bool

func initRapid() {
	if rapidInit {
		return
	}
	rapidInit = true
	testing.Init()
	_ = flag.CommandLine.Parse([]string{"-rapid.nofailfile=true", "-rapid.shrinktime=20s"})
}

func mix(seed uint64, parts ...string) uint64 {
	h := fnv.New64a()
	var b [8]byte
	for i := 0; i < 8; i++ {
		b[i] = byte(seed >> (8 * uint(i)))
	}
	h.Write(b[:])
	for _, p := range parts {
		h.Write([]byte{0})
		h.Write([]byte(p))
	}
	v := h.Sum64() >> 1 // keep it positive when printed as int64
	if v == 0 {
		v = 1
	}
	return v
}

// HangError is returned (wrapped in the shard's exit) when a case hung.
type hangAbort struct{ res *Result }

// ---- memory watchdog ------------------------------------------------------------------
//
// A wrong length read from a file can make the code under test request
// gigabytes (e.g. a slice sized by a garbage frequency). The Go runtime would
// eventually kill the process without a verdict; the watchdog notices the blow-up
// while the allocation is still being zeroed, reports the case that was running
// as a violation (unshrunk) and ends the shard.

var curCase atomic.Pointer[Case]

var memLog = os.Getenv("ICESIM_MEMLOG") != ""

// lastBeat is the time of the last sign of progress (a case or a sub-run
// starting). A shard that shows none for stallLimit is stuck somewhere no
// scheduler watches (e.g. the world of the next case cannot be built because an
// earlier faulted run leaked a process-wide resource).
var lastBeat atomic.Int64

// peakRSS is the largest resident size the watchdog has seen in this shard.
var peakRSS atomic.Uint64

const stallLimit = 420 * time.Second

// residentBytes is the memory the process has actually touched (RSS). Mapped
// but untouched memory does not count: ice's builder legitimately reserves an
// output buffer of (previous build's bytes per document) x (documents of this
// batch) from its pooled state, which can be many gigabytes that are never used.
func residentBytes() uint64 {
	b, err := os.ReadFile("/proc/self/statm")
	if err != nil {
		return 0
	}
	f := strings.Fields(string(b))
	if len(f) < 2 {
		return 0
	}
	pages, _ := strconv.ParseUint(f[1], 10, 64)
	return pages * uint64(os.Getpagesize())
}

// Heartbeat records progress.
func Heartbeat() { lastBeat.Store(time.Now().UnixNano()) }

// CurrentCaseFile, when set, receives the case about to be executed.
var CurrentCaseFile string

// OnShardAbort is called by the watchdog with the stats to persist; it must not return.
var OnShardAbort func(st *ShardStats)

func startMemoryWatchdog(limit uint64, prop string, seed uint64, shard int, outDir string, st *ShardStats) {
	go func() {
		for {
			time.Sleep(50 * time.Millisecond)
			rss := residentBytes()
			if rss > peakRSS.Load() {
				peakRSS.Store(rss)
			}
			over := rss >= limit
			stalled := time.Since(time.Unix(0, lastBeat.Load())) > stallLimit
			if !over && !stalled {
				continue
			}
			c := curCase.Load()
			if c == nil || OnShardAbort == nil {
				continue
			}
			var fail *Fail
			if over {
				fail = &Fail{Prop: prop, Oracle: "memory", Kind: "memory-blowup", Site: c.Scen,
					Detail: fmt.Sprintf("while this case was executing the resident memory of the process grew to %d MiB (limit %d MiB): the code under test filled an absurd amount of memory, typically a slice sized by a wrong length or frequency", rss>>20, limit>>20)}
			} else {
				buf := make([]byte, 1<<20)
				buf = buf[:runtime.Stack(buf, true)]
				switch {
				case blockedInIce(string(buf)):
					fail = &Fail{Prop: prop, Oracle: "progress", Kind: "hang", Site: c.Scen,
						Detail: fmt.Sprintf("no progress for %v while this case was executing (or being set up): a goroutine is blocked inside ice on a lock, semaphore or channel nobody will release - typically something leaked by an earlier failed operation\n%s", stallLimit, trimDump(string(buf)))}
				case runningInIce(string(buf)):
					fail = &Fail{Prop: prop, Oracle: "progress", Kind: "hang", Site: c.Scen,
						Detail: fmt.Sprintf("no progress for %v while this case was executing: a goroutine has been running inside ice all that time without returning - a loop that does not terminate (typically an unbounded retry)\n%s", stallLimit, trimDump(string(buf)))}
				default:
					fmt.Fprintf(os.Stderr, "HARNESS ERROR: no progress for %v and no goroutine is blocked or running inside ice\n%s\n", stallLimit, trimDump(string(buf)))
					os.Exit(2)
				}
			}
			rp := &Replay{Property: prop, Check: prop, Scenario: c.Scen, Seed: seed, Shard: shard, Case: c, Verdict: fail, Trace: "0", Minimal: false}
			path := filepath.Join(outDir, fmt.Sprintf("%s-by%s-%s-%d-%d.json", prop, prop, c.Scen, seed, shard))
			b, _ := json.MarshalIndent(rp, "", " ")
			_ = os.MkdirAll(outDir, 0o755)
			_ = os.WriteFile(path, b, 0o644)
			st.Violation = append(st.Violation, path)
			st.VioProps = append(st.VioProps, prop)
			OnShardAbort(st)
		}
	}()
}

// WatchMemory calls onBlowup once when the process exceeds limit bytes (used by
// replay, so that replaying a memory-blowup verdict ends with a verdict too).
func WatchMemory(limit uint64, onBlowup func(mib uint64)) {
	go func() {
		for {
			time.Sleep(50 * time.Millisecond)
			if rss := residentBytes(); rss >= limit {
				onBlowup(rss >> 20)
				return
			}
		}
	}()
}

// RunShard executes one shard of a property's plan. It returns the stats and
// whether a harness error occurred.
func RunShard(prop, tier string, seed uint64, shard, shards int, plan []PlanItem, findings *Findings, outDir string, budget time.Duration) (*ShardStats, error) {
	initRapid()
	start := time.Now()
	st := &ShardStats{Prop: prop, Tier: tier, Shard: shard, Seed: seed, PerScen: map[string]*ScenStats{}, Known: map[string]int{}, Hashes: map[string][]uint64{}}
	env := &Env{Prop: prop, Tier: tier}
	// well above anything the unchanged code needs (its builder can legitimately
	// touch a few GiB: see residentBytes); an allocation the OS refuses outright
	// ends the process and is classified by the orchestrator (crashVerdict); a
	// shard killed without a dump is re-executed alone (isolatedVerdict)
	// (measured peaks of the unchanged code: <= 3.7 GiB per shard in the quick
	// tier over several seeds; reported as peak_resident_mib_per_shard)
	limit := uint64(10) << 30
	if RaceBuild {
		limit = 16 << 30
	}
	Heartbeat()
	startMemoryWatchdog(limit, prop, seed, shard, outDir, st)
	for _, item := range plan {
		sc := Scenarios[item.Scen]
		if sc == nil {
			return nil, fmt.Errorf("plan names unknown scenario %q", item.Scen)
		}
		total := item.Quick
		if tier == "thorough" {
			total = item.Thorough
		}
		n := total / shards
		if shard < total%shards {
			n++
		}
		if n == 0 {
			continue
		}
		ss := &ScenStats{Probes: map[string]int{}, Faults: map[string]int{}, FaultsCfg: map[string]int{}, scheds: map[uint64]struct{}{}, shapes: map[uint64]struct{}{}}
		st.PerScen[item.Scen] = ss
		seen := map[uint64]struct{}{}
		sub := mix(seed, prop, item.Scen, strconv.Itoa(shard))
		_ = flag.Set("rapid.checks", strconv.Itoa(n))
		_ = flag.Set("rapid.seed", strconv.FormatUint(sub, 10))

		var lastFail *Fail
		var lastCase *Case
		var lastTrace uint64
		var harnessErr error
		searching := true
		nsamples := 0
		deadline := start.Add(budget)
		tb := &quietTB{}
		prop1 := func(t *rapid.T) {
			if harnessErr != nil {
				return
			}
			if searching && budget > 0 && time.Now().After(deadline) {
				return // wall-clock safety stop; reported through the case counts
			}
			c := sc.Gen(t, prop)
			c.Scen = sc.Name
			curCase.Store(c)
			Heartbeat()
			if CurrentCaseFile != "" {
				// if the process dies (a fatal runtime error, a panic on a goroutine
				// the code under test started), the orchestrator finds the case here
				if b, err := json.Marshal(&Replay{Property: prop, Check: prop, Scenario: sc.Name, Seed: seed, Shard: shard, Case: c, Trace: "0",
					Verdict: &Fail{Prop: prop, Oracle: "process", Kind: "died", Site: sc.Name, Detail: "the shard process died while executing this case"}}); err == nil {
					_ = os.WriteFile(CurrentCaseFile, b, 0o644)
				}
			}
			res, err := Execute(c, env)
			curCase.Store(nil)
			if memLog {
				ms := []metrics.Sample{{Name: "/memory/classes/heap/objects:bytes"}, {Name: "/memory/classes/total:bytes"}}
				metrics.Read(ms)
				if ms[1].Value.Uint64() > 2<<30 {
					b, _ := json.Marshal(c)
					if len(b) > 600 {
						b = b[:600]
					}
					fmt.Fprintf(os.Stderr, "MEMLOG objects=%dMiB total=%dMiB case=%s\n", ms[0].Value.Uint64()>>20, ms[1].Value.Uint64()>>20, b)
				}
			}
			if err != nil {
				harnessErr = err
				return
			}
			if searching {
				ss.Cases++
				ss.SubRuns += res.SubRuns
				ss.Events += res.Events
				ss.Yields += res.Yields
				ss.Switches += res.Switches
				ss.Skipped += res.Skipped
				for k, v := range res.Probes {
					ss.Probes[k] += v
				}
				for k, v := range res.Faults {
					ss.Faults[k] += v
				}
				for k, v := range res.FaultsCfg {
					ss.FaultsCfg[k] += v
				}
				if res.Switches > 0 {
					ss.scheds[res.SchedSig] = struct{}{}
				}
				ss.shapes[res.Shape] = struct{}{}
				if res.NonTrivial {
					h := CaseHash(c)
					if _, dup := seen[h]; !dup {
						seen[h] = struct{}{}
						ss.NonTrivial++
						st.Hashes[item.Scen] = append(st.Hashes[item.Scen], h)
						// keep the two smallest non-trivial cases of this shard as samples
						if b, err := json.Marshal(c); err == nil {
							if nsamples < 2 {
								st.Samples = append(st.Samples, b)
								nsamples++
							} else {
								big := 0
								if len(st.Samples[1]) > len(st.Samples[0]) {
									big = 1
								}
								if len(b) < len(st.Samples[big]) {
									st.Samples[big] = b
								}
							}
						}
					}
				}
			}
			if res.Fail != nil {
				if k := findings.Match(res.Fail); k != nil {
					if searching {
						st.Known[fmt.Sprintf("property=%s %s", k.Property, k.What)]++
					}
					return
				}
				if lastFail != nil && !searching && res.Fail.Class() != lastFail.Class() {
					// shrinking must stay within the violation class it started from
					return
				}
				lastFail, lastCase, lastTrace = res.Fail, c, res.Trace
				if res.Fail.Kind == "hang" || res.Fail.Kind == "race" {
					// hang: goroutines are leaked; race: the detector reports each
					// racing pair only once per process, so re-execution (shrinking)
					// cannot reproduce it here. Report the case as found.
					panic(hangAbort{res})
				}
				searching = false
				t.Fatalf("%s", res.Fail.Class())
			}
		}
		func() {
			defer func() {
				if r := recover(); r != nil {
					switch r.(type) {
					case failNow, hangAbort:
					default:
						panic(r)
					}
				}
			}()
			rapid.Check(tb, prop1)
		}()
		ss.Scheds = len(ss.scheds)
		ss.Shapes = len(ss.shapes)
		if harnessErr != nil {
			return st, harnessErr
		}
		if lastFail != nil {
			rp := &Replay{Property: lastFail.Prop, Check: prop, Scenario: sc.Name, Seed: seed, Shard: shard, Case: lastCase, Verdict: lastFail, Trace: fmt.Sprintf("%016x", lastTrace), Minimal: lastFail.Kind != "hang" && lastFail.Kind != "race"}
			path := filepath.Join(outDir, fmt.Sprintf("%s-by%s-%s-%d-%d.json", lastFail.Prop, prop, sc.Name, seed, shard))
			b, _ := json.MarshalIndent(rp, "", " ")
			if err := os.MkdirAll(outDir, 0o755); err != nil {
				return st, err
			}
			if err := os.WriteFile(path, b, 0o644); err != nil {
				return st, err
			}
			st.Violation = append(st.Violation, path)
			st.VioProps = append(st.VioProps, lastFail.Prop)
			if lastFail.Kind == "hang" || lastFail.Kind == "race" {
				break // goroutines leaked / report suppression: stop this shard
			}
		}
	}
	st.WallS = time.Since(start).Seconds()
	st.Extra = map[string]interface{}{"peak_rss_mib": peakRSS.Load() >> 20}
	return st, nil
}

// SortedKeys returns the keys of a string-keyed int map in order.
func SortedKeys(m map[string]int) []string {
	ks := make([]string, 0, len(m))
	for k := range m {
		ks = append(ks, k)
	}
	sort.Strings(ks)
	return ks
}
