package sim

import (
	"fmt"

	"github.com/RoaringBitmap/roaring"
	segment "github.com/blugelabs/bluge_segment_api"
	"pgregory.net/rapid"

	"icesim/model"
)

// Scenario "tree" (C17): metamorphic check that merging is associative and
// has single-segment identity. Needs no model, so it also cross-checks the
// model used for C02.

type TreeCase struct {
	Leaves    []int    `json:"leaves"`              // world segment indices (mod)
	Drops     []Drop   `json:"drops"`               // per leaf
	Groups    []int    `json:"groups"`              // order-preserving grouping of the leaves (sizes; remainder joins the last group)
	Translate []bool   `json:"translate,omitempty"` // per group: inner merge without drops, drops translated one level up
	Groups2   []int    `json:"groups2,omitempty"`   // optional second grouping level over the group results
	Modes     []uint32 `json:"modes"`               // chunk modes, cycled over the merges
	Stores    []string `json:"stores"`              // storage of intermediate results, cycled
	Public    []bool   `json:"public,omitempty"`    // use the public Merge API, cycled
}

func init() {
	register(&Scenario{
		Name: "tree",
		Rule: "non-trivial = >=2 leaves with >=1 surviving document and a grouping that differs from the flat merge (some group of size >=2 or a translated deletion), or an identity check on a merged segment; distinct = distinct case JSON",
		Gen:  genTreeCase,
		Run:  runTreeCase,
	})
}

func genTreeCase(t *rapid.T, prop string) *Case {
	o := WorldOpts{MinBuilds: 1, MaxBuilds: 4, MaxMerges: 1, BigPct: 2, HugePct: 30, MaxTinyDocs: 7}
	if rapid.IntRange(0, 2).Draw(t, "swarm-nolocs") == 0 {
		o.NoLocs = true
	}
	wd := GenWorld(t, o)
	tc := &TreeCase{}
	nl := rapid.IntRange(1, 5).Draw(t, "nleaves")
	for i := 0; i < nl; i++ {
		tc.Leaves = append(tc.Leaves, rapid.IntRange(0, 5).Draw(t, "leaf"))
		tc.Drops = append(tc.Drops, genDrop(t))
	}
	ng := rapid.IntRange(1, 3).Draw(t, "ngroups")
	for i := 0; i < ng; i++ {
		tc.Groups = append(tc.Groups, rapid.IntRange(1, 3).Draw(t, "gsize"))
		tc.Translate = append(tc.Translate, rapid.IntRange(0, 1).Draw(t, "translate") == 1)
	}
	if rapid.IntRange(0, 2).Draw(t, "level2") == 0 {
		tc.Groups2 = []int{rapid.IntRange(1, 2).Draw(t, "g2a"), rapid.IntRange(1, 2).Draw(t, "g2b")}
	}
	nm := rapid.IntRange(1, 4).Draw(t, "nmodes")
	for i := 0; i < nm; i++ {
		tc.Modes = append(tc.Modes, rapid.SampledFrom(chunkModes).Draw(t, "mode"))
		tc.Stores = append(tc.Stores, rapid.SampledFrom([]string{StoreMem, StoreFile}).Draw(t, "store"))
		tc.Public = append(tc.Public, rapid.IntRange(0, 2).Draw(t, "public") == 0)
	}
	return &Case{World: wd, Tree: tc}
}

type treeNode struct {
	seg   segment.Segment
	drops *roaring.Bitmap // deletions still to be applied when this node is merged
	count int
}

type treeRunner struct {
	tc    *TreeCase
	sched *Sched
	n     int // merges done (cycles modes/stores)
	res   *Result
}

func (tr *treeRunner) merge(nodes []treeNode, applyDrops bool) (treeNode, [][]uint64, *Fail) {
	var segs []segment.Segment
	var drops []*roaring.Bitmap
	for _, nd := range nodes {
		segs = append(segs, nd.seg)
		if applyDrops {
			drops = append(drops, nd.drops)
		} else {
			drops = append(drops, nil)
		}
	}
	k := tr.n
	tr.n++
	md := &MergeDef{Public: tr.tc.Public[k%len(tr.tc.Public)], Buf: []int{0, 1, 7, 4096}[k%4]}
	mode := tr.tc.Modes[k%len(tr.tc.Modes)]
	wr := NewSimWriter(tr.sched)
	nums, _, pi, err := RunMerge(md, mode, segs, drops, wr, nil)
	if pi != nil || err != nil {
		return treeNode{}, nil, apiFail("C17", "tree", fmt.Sprintf("merge #%d of %d inputs", k, len(segs)), pi, err)
	}
	if len(nums) != len(nodes) {
		return treeNode{}, nil, mismatch("C03", "docnums", "outer-length", fmt.Sprintf("tree merge #%d: DocumentNumbers() has %d slices for %d inputs", k, len(nums), len(nodes)))
	}
	seg, _, _, pi, err := LoadView(wr.Buf, tr.tc.Stores[k%len(tr.tc.Stores)], tr.sched)
	if pi != nil || err != nil {
		return treeNode{}, nil, apiFail("C04", "world", "Load(tree merge output)", pi, err)
	}
	out := treeNode{seg: seg, count: int(seg.Count())}
	if !applyDrops {
		// translate the pending deletions through the reported document numbers
		var pending *roaring.Bitmap
		for i, nd := range nodes {
			if nd.drops == nil {
				continue
			}
			if pending == nil {
				pending = roaring.New()
			}
			it := nd.drops.Iterator()
			for it.HasNext() {
				old := it.Next()
				if int(old) >= len(nums[i]) {
					return treeNode{}, nil, mismatch("C03", "docnums", "inner-length", fmt.Sprintf("tree merge #%d: DocumentNumbers()[%d] has %d entries, need %d", k, i, len(nums[i]), old+1))
				}
				nn := nums[i][old]
				if nn == dropSentinel {
					return treeNode{}, nil, mismatch("C03", "docnums", "entry", fmt.Sprintf("tree merge #%d without deletions reports input %d doc %d as dropped", k, i, old))
				}
				pending.Add(uint32(nn))
			}
		}
		out.drops = pending
		tr.res.probe("translated-deletions")
	}
	return out, nums, nil
}

func groupNodes(nodes []treeNode, sizes []int) [][]treeNode {
	var groups [][]treeNode
	i := 0
	for gi, sz := range sizes {
		if i >= len(nodes) {
			break
		}
		end := i + sz
		if end > len(nodes) || gi == len(sizes)-1 {
			end = len(nodes)
		}
		groups = append(groups, nodes[i:end])
		i = end
	}
	if i < len(nodes) {
		groups = append(groups, nodes[i:])
	}
	return groups
}

func runTreeCase(c *Case, env *Env) *Result {
	res := &Result{SubRuns: 1}
	sched := NewSched(nil)
	defer res.absorb(sched)
	w, fail := BuildWorldFor(env.Prop, c.World, sched)
	if fail != nil {
		res.Fail = fail
		return res
	}
	res.Shape = worldShape(w)
	tc := c.Tree
	tr := &treeRunner{tc: tc, sched: sched, res: res}
	var leaves []treeNode
	survivors := 0
	for i, li := range tc.Leaves {
		ws := w.Segs[li%len(w.Segs)]
		bm, dropped := MakeDrops(&tc.Drops[i], len(ws.Docs))
		for _, d := range dropped {
			if !d {
				survivors++
			}
		}
		leaves = append(leaves, treeNode{seg: ws.Seg, drops: bm, count: len(ws.Docs)})
	}
	// flat merge
	flat, _, f := tr.merge(leaves, true)
	if f != nil {
		res.Fail = f
		return res
	}
	flatObs, f := Observe("C17", flat.seg, ObsOpts{})
	if f != nil {
		res.Fail = f
		return res
	}
	// identity: merging the (merged) flat result alone with no deletions
	id, _, f := tr.merge([]treeNode{{seg: flat.seg}}, true)
	if f != nil {
		res.Fail = f
		return res
	}
	idObs, f := Observe("C17", id.seg, ObsOpts{})
	if f != nil {
		res.Fail = f
		return res
	}
	if d := model.Diff(idObs, flatObs); d != "" {
		res.Fail = mismatch("C17", "tree", "identity:"+sectionOf(d), fmt.Sprintf("Merge([X],[nil]) differs from X (a merge output of %d documents): %s", flat.count, d))
		return res
	}
	res.probe("identity-on-merged")
	// identity on a built leaf (DocumentCount of term-less fields is carved out)
	if ws := w.Segs[tc.Leaves[0]%len(w.Segs)]; ws.Kind == model.Built {
		leafObs, f1 := Observe("C17", ws.Seg, ObsOpts{})
		id2, _, f2 := tr.merge([]treeNode{{seg: ws.Seg}}, true)
		if f1 == nil && f2 == nil {
			id2Obs, f3 := Observe("C17", id2.seg, ObsOpts{})
			if f3 != nil {
				res.Fail = f3
				return res
			}
			if d := model.Diff(id2Obs, leafObs, "stats.docs"); d != "" {
				res.Fail = mismatch("C17", "tree", "identity-built:"+sectionOf(d), fmt.Sprintf("Merge([X],[nil]) differs from built X (%d documents): %s", len(ws.Docs), d))
				return res
			}
			res.probe("identity-on-built")
		} else if f2 != nil {
			res.Fail = f2
			return res
		}
	}

	// grouped merge
	groups := groupNodes(leaves, tc.Groups)
	differs := false
	var level []treeNode
	for gi, g := range groups {
		translate := gi < len(tc.Translate) && tc.Translate[gi]
		if len(g) == 1 && !translate {
			level = append(level, g[0])
			continue
		}
		differs = true
		nd, _, f := tr.merge(g, !translate)
		if f != nil {
			res.Fail = f
			return res
		}
		level = append(level, nd)
	}
	if len(tc.Groups2) > 0 && len(level) > 2 {
		var next []treeNode
		for _, g := range groupNodes(level, tc.Groups2) {
			if len(g) == 1 {
				next = append(next, g[0])
				continue
			}
			differs = true
			nd, _, f := tr.merge(g, true)
			if f != nil {
				res.Fail = f
				return res
			}
			next = append(next, nd)
		}
		level = next
		res.probe("three-level-tree")
	}
	top, _, f := tr.merge(level, true)
	if f != nil {
		res.Fail = f
		return res
	}
	topObs, f := Observe("C17", top.seg, ObsOpts{})
	if f != nil {
		res.Fail = f
		return res
	}
	if d := model.Diff(topObs, flatObs); d != "" {
		res.Fail = mismatch("C17", "tree", "assoc:"+sectionOf(d), fmt.Sprintf("grouped merge (groups %v translate %v groups2 %v) of %d leaves differs from the flat merge (%d survivors): %s", tc.Groups, tc.Translate, tc.Groups2, len(leaves), survivors, d))
		return res
	}
	if differs && len(leaves) >= 2 && survivors > 0 {
		res.NonTrivial = true
	}
	if flat.count > 0 {
		res.NonTrivial = true
	}
	return res
}
