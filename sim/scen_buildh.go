package sim

import (
	"bytes"
	"fmt"
	"time"

	segment "github.com/blugelabs/bluge_segment_api"
	ice "github.com/blugelabs/ice/v2"
	"pgregory.net/rapid"

	"icesim/model"
)

// Scenario "build-history" (C14): the bytes New produces for a target batch
// must not depend on the builds that preceded it (pooled builder state), on
// map iteration order, or on builds in progress at the same time. Builder
// tasks are interleaved by the scheduler at the document-iterator callbacks;
// the same cases run in the -race build.

type BuildHCase struct {
	DV      []string `json:"dv,omitempty"`
	Target  SegDef   `json:"target"`
	History []SegDef `json:"history,omitempty"` // built (and discarded) between two builds of the target
	Conc    []SegDef `json:"conc,omitempty"`    // built concurrently with the target
	Twice   bool     `json:"twice,omitempty"`   // one concurrent task builds the target batch as well
}

func init() {
	register(&Scenario{
		Name: "build-history",
		Rule: "non-trivial = the target batch has >=1 document and the case contains >=1 preceding build of a different batch or >=1 concurrent builder with >=1 task switch taken inside New; distinct = distinct case JSON",
		Gen:  genBuildHCase,
		Run:  runBuildHCase,
	})
}

func genBuildHCase(t *rapid.T, prop string) *Case {
	o := WorldOpts{MinBuilds: 1, MaxBuilds: 1, BigPct: 5, HugePct: 20, MaxTinyDocs: 8, Stores: []string{StoreBuilt}}
	o.defaults()
	s := genSchema(t, &o)
	mk := func(label string) SegDef {
		sd := SegDef{
			Batch: genBatch(t, s, &o),
			Norm:  rapid.IntRange(0, model.NormKinds-1).Draw(t, label+"norm"),
			Mode:  rapid.SampledFrom(chunkModes).Draw(t, label+"mode"),
			Store: StoreBuilt,
		}
		return sd
	}
	bc := &BuildHCase{DV: s.dvList(), Target: mk("t")}
	nh := rapid.IntRange(0, 5).Draw(t, "nhist")
	for i := 0; i < nh; i++ {
		sd := mk("h")
		if rapid.IntRange(0, 5).Draw(t, "badmode") == 0 {
			sd.Mode = 5000 // unknown chunk mode: the build fails
		}
		bc.History = append(bc.History, sd)
	}
	nc := rapid.IntRange(0, 2).Draw(t, "nconc")
	for i := 0; i < nc; i++ {
		bc.Conc = append(bc.Conc, mk("c"))
	}
	bc.Twice = rapid.IntRange(0, 3).Draw(t, "twice") == 0
	return &Case{BuildH: bc, Sched: genSchedule(t, 40)}
}

func buildBytes(sd *SegDef, idx int, dv map[string]bool, sched *Sched) ([]byte, error, *PanicInfo) {
	docs := ExpandBatch(sd, idx)
	var seg segment.Segment
	var err error
	inTask := sched.Active() // concurrent builders: the pool bookkeeping is done by the caller before the run
	if !inTask {
		PreBuild(IceImpl, len(docs))
	}
	var size uint64
	pi := Guard(func() { seg, size, err = ice.VerifNew(ToSegmentDocs(docs, dv, sched), model.NormFn(sd.Norm), sd.Mode) })
	if !inTask {
		PostBuild(IceImpl, len(docs), size)
	}
	if pi != nil || err != nil {
		return nil, err, pi
	}
	wr := NewSimWriter(nil)
	var werr error
	pi = Guard(func() { _, werr = seg.WriteTo(wr, nil) })
	return wr.Buf, werr, pi
}

func runBuildHCase(c *Case, env *Env) *Result {
	res := &Result{SubRuns: 1}
	sched := NewSched(c.Sched)
	defer res.absorb(sched)
	bc := c.BuildH
	dv := map[string]bool{}
	for _, n := range bc.DV {
		dv[n] = true
	}
	nTarget := len(ExpandBatch(&bc.Target, 0))

	sched.Hold()
	b0, err, pi := buildBytes(&bc.Target, 0, dv, sched)
	if pi != nil || err != nil {
		sched.Release()
		res.Fail = apiFail("C01", "world", "New(target)", pi, err)
		return res
	}
	// sequential references for the concurrent builders
	var concRef [][]byte
	for i := range bc.Conc {
		b, err, pi := buildBytes(&bc.Conc[i], 100+i, dv, sched)
		if pi != nil || err != nil {
			sched.Release()
			res.Fail = apiFail("C01", "world", "New(concurrent batch)", pi, err)
			return res
		}
		concRef = append(concRef, b)
	}
	failed := 0
	for i := range bc.History {
		_, err, pi := buildBytes(&bc.History[i], 200+i, dv, sched)
		if pi != nil {
			sched.Release()
			res.Fail = apiFail("C01", "world", "New(history batch)", pi, nil)
			return res
		}
		if err != nil {
			failed++
		}
		// the target again after every history step
		b1, err, pi := buildBytes(&bc.Target, 0, dv, sched)
		if pi != nil || err != nil {
			sched.Release()
			res.Fail = apiFail("C14", "build-history", "New(target after history)", pi, err)
			return res
		}
		if !bytes.Equal(b0, b1) {
			sched.Release()
			res.Fail = mismatch("C14", "build-history", "after-history", fmt.Sprintf("target batch (%d docs, mode %d) built after %d other build(s) (%d failed) differs from its first build at byte %d (%d vs %d bytes)", nTarget, bc.Target.Mode, i+1, failed, firstDiff(b0, b1), len(b0), len(b1)))
			return res
		}
	}
	sched.Release()
	res.probeN("failed-builds-in-history", failed)
	res.probeN("history-builds", len(bc.History))
	if ice.VerifBuilderPoolWarm() {
		res.probe("pool-reuse-observed")
	}
	if nTarget > 0 && len(bc.History) > 0 {
		res.NonTrivial = true
	}

	// concurrent phase
	if len(bc.Conc) > 0 || bc.Twice {
		type out struct {
			b   []byte
			err error
			pi  *PanicInfo
		}
		n := 1 + len(bc.Conc)
		if bc.Twice {
			n++
		}
		outs := make([]out, n)
		maxDocs := nTarget
		for i := range bc.Conc {
			if k := len(ExpandBatch(&bc.Conc[i], 100+i)); k > maxDocs {
				maxDocs = k
			}
		}
		PreBuild(IceImpl, maxDocs)
		var bodies []func(int)
		bodies = append(bodies, func(int) { outs[0].b, outs[0].err, outs[0].pi = buildBytes(&bc.Target, 0, dv, sched) })
		for i := range bc.Conc {
			i := i
			bodies = append(bodies, func(int) { outs[1+i].b, outs[1+i].err, outs[1+i].pi = buildBytes(&bc.Conc[i], 100+i, dv, sched) })
		}
		if bc.Twice {
			bodies = append(bodies, func(int) { outs[n-1].b, outs[n-1].err, outs[n-1].pi = buildBytes(&bc.Target, 0, dv, sched) })
		}
		if h := sched.Run(bodies, 60*time.Second); h != nil {
			if h.MutexBlocked {
				res.Fail = &Fail{Prop: "C14", Oracle: "build-history", Kind: "hang", Site: "sync.Mutex.Lock", Detail: "a builder blocked forever\n" + h.Dump}
				return res
			}
			panic(&HarnessPanic{Msg: "concurrent builders hung outside ice", Stack: h.Dump})
		}
		res.probe("concurrent-builders")
		if sched.Switches > 0 && nTarget > 0 {
			res.NonTrivial = true
		}
		for i := range outs {
			if outs[i].pi != nil || outs[i].err != nil {
				res.Fail = apiFail("C14", "build-history", fmt.Sprintf("New in concurrent builder %d of %d", i, n), outs[i].pi, outs[i].err)
				return res
			}
			ref := b0
			what := "the target batch"
			if i >= 1 && i <= len(bc.Conc) {
				ref = concRef[i-1]
				what = fmt.Sprintf("concurrent batch %d", i-1)
			}
			if !bytes.Equal(outs[i].b, ref) {
				res.Fail = mismatch("C14", "build-history", "concurrent", fmt.Sprintf("%s built while %d other New call(s) were in progress (%d task switches) differs from its sequential build at byte %d (%d vs %d bytes)", what, n-1, sched.Switches, firstDiff(outs[i].b, ref), len(outs[i].b), len(ref)))
				return res
			}
		}
		if f := raceVerdict("C14"); f != nil {
			res.Fail = f
			return res
		}
	}
	return res
}
