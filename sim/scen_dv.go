package sim

import (
	"fmt"

	segment "github.com/blugelabs/bluge_segment_api"
	"pgregory.net/rapid"

	"icesim/model"
)

// Scenario "docvalues" (C07): readers opened on subsets/orders of fields,
// each visiting a history of existing document numbers (the reader caches one
// decoded chunk per field, so the order is part of the input).

type DVReader struct {
	Fields []int `json:"fields"` // indices into segment fields + [unknown, "so"-like non-dv names]
	Visits []int `json:"visits"` // document numbers, reduced modulo Count
}

type DVCase struct {
	Seg     int        `json:"seg"`
	Readers []DVReader `json:"readers"`
}

func init() {
	register(&Scenario{
		Name: "docvalues",
		Rule: "non-trivial = a reader visits documents of a segment that has a doc-value field with values, and either the history is non-monotonic or it crosses a 1024-document chunk boundary or it requests a subset of the fields; distinct = distinct case JSON",
		Gen:  genDVCase,
		Run:  runDVCase,
	})
}

func genVisitPattern(t *rapid.T) []int {
	var out []int
	switch rapid.IntRange(0, 6).Draw(t, "pattern") {
	case 0: // forwards run
		s := rapid.IntRange(0, 2100).Draw(t, "from")
		n := rapid.IntRange(1, 12).Draw(t, "len")
		step := rapid.SampledFrom([]int{1, 1, 2, 7, 500}).Draw(t, "step")
		for i := 0; i < n; i++ {
			out = append(out, s+i*step)
		}
	case 1: // backwards run
		s := rapid.IntRange(0, 2100).Draw(t, "from")
		n := rapid.IntRange(1, 12).Draw(t, "len")
		step := rapid.SampledFrom([]int{1, 1, 2, 7, 500}).Draw(t, "step")
		for i := 0; i < n; i++ {
			v := s - i*step
			if v < 0 {
				v = -v
			}
			out = append(out, v)
		}
	case 2: // ping-pong across a chunk boundary
		b := rapid.SampledFrom([]int{1024, 2048}).Draw(t, "boundary")
		n := rapid.IntRange(2, 8).Draw(t, "len")
		for i := 0; i < n; i++ {
			if i%2 == 0 {
				out = append(out, b-1-rapid.IntRange(0, 2).Draw(t, "lo"))
			} else {
				out = append(out, b+rapid.IntRange(0, 2).Draw(t, "hi"))
			}
		}
	case 3: // same document repeatedly
		d := rapid.IntRange(0, 2100).Draw(t, "doc")
		out = []int{d, d, d}
	default: // random
		n := rapid.IntRange(1, 10).Draw(t, "len")
		for i := 0; i < n; i++ {
			out = append(out, rapid.IntRange(0, 2100).Draw(t, "doc"))
		}
	}
	return out
}

func genDVCase(t *rapid.T, prop string) *Case {
	o := WorldOpts{MinBuilds: 1, MaxBuilds: 2, MaxMerges: 2, BigPct: 22, HugePct: 75, MoreDV: true}
	wd := GenWorld(t, o)
	dc := &DVCase{Seg: rapid.IntRange(0, 7).Draw(t, "seg")}
	nr := rapid.IntRange(1, 3).Draw(t, "nreaders")
	for i := 0; i < nr; i++ {
		r := DVReader{}
		nf := rapid.IntRange(0, 5).Draw(t, "nfields")
		for j := 0; j < nf; j++ {
			r.Fields = append(r.Fields, rapid.IntRange(0, 9).Draw(t, "field"))
		}
		np := rapid.IntRange(1, 3).Draw(t, "npatterns")
		for j := 0; j < np; j++ {
			r.Visits = append(r.Visits, genVisitPattern(t)...)
		}
		dc.Readers = append(dc.Readers, r)
	}
	return &Case{World: wd, DVQ: dc}
}

func runDVCase(c *Case, env *Env) *Result {
	res := &Result{SubRuns: 1}
	sched := NewSched(nil)
	defer res.absorb(sched)
	w, fail := BuildWorldFor(env.Prop, c.World, sched)
	if fail != nil {
		res.Fail = fail
		return res
	}
	res.Shape = worldShape(w)
	dc := c.DVQ
	ws := w.Segs[dc.Seg%len(w.Segs)]
	exp := ws.Exp()
	cnt := len(ws.Docs)
	names := append(append([]string(nil), ws.Fields...), model.UnknownField, "")
	hasValues := false
	for _, vs := range exp.DV {
		if len(vs) > 0 {
			hasValues = true
			break
		}
	}
	if ws.Kind == model.Merged {
		res.probe("merged-segment")
	}
	if cnt > 1024 {
		res.probe("multi-chunk-segment")
	}
	for ri, r := range dc.Readers {
		// requested fields: deduplicated, in requested order
		var req []string
		seen := map[string]bool{}
		for _, fi := range r.Fields {
			n := names[fi%len(names)]
			if !seen[n] {
				seen[n] = true
				req = append(req, n)
			}
		}
		var dvr segment.DocumentValueReader
		var err error
		pi := Guard(func() { dvr, err = ws.Seg.DocumentValueReader(req) })
		if pi != nil || err != nil {
			res.Fail = apiFail("C07", "docvalues", "DocumentValueReader", pi, err)
			return res
		}
		subset := false
		for _, f := range ws.Fields {
			if w.DV[f] && !seen[f] {
				subset = true
			}
		}
		prev := -1
		for vi, v := range r.Visits {
			if cnt == 0 {
				break // only existing documents are visited (the property quantifies over documents)
			}
			n := v % cnt
			var want []model.FV
			for _, f := range req {
				for _, fv := range exp.DV[n] {
					if fv.F == f {
						want = append(want, fv)
					}
				}
			}
			if hasValues {
				if prev >= 0 && n < prev {
					res.probe("backward-visit")
					res.NonTrivial = true
				}
				if prev >= 0 && n/1024 != prev/1024 {
					res.probe("chunk-boundary-crossing")
					res.NonTrivial = true
				}
				if subset {
					res.NonTrivial = true
				}
			}
			prev = n
			var got []model.FV
			pi := Guard(func() {
				err = dvr.VisitDocumentValues(uint64(n), func(field string, term []byte) {
					got = append(got, model.FV{F: field, V: append(model.Bytes{}, term...)})
				})
			})
			where := fmt.Sprintf("seg %d (%s, %d docs) reader #%d fields %q visit #%d VisitDocumentValues(%d)", ws.Idx, ws.Def.Store, cnt, ri, req, vi, n)
			if pi != nil {
				res.Fail = &Fail{Prop: "C07", Oracle: "docvalues", Kind: "panic", Site: pi.Site, Detail: where + " panicked: " + pi.Msg}
				return res
			}
			if err != nil {
				res.Fail = &Fail{Prop: "C07", Oracle: "docvalues", Kind: "error", Site: "VisitDocumentValues", Detail: fmt.Sprintf("%s: %v", where, err)}
				return res
			}
			if d := model.DiffFV(got, want); d != "" {
				res.Fail = mismatch("C07", "docvalues", "values", where+": "+d)
				return res
			}
		}
	}
	return res
}
