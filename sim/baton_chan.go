//go:build !race

package sim

// RaceBuild reports whether this binary was built with -race.
const RaceBuild = false

// baton (normal build): a buffered channel.
type baton struct{ ch chan struct{} }

func newBaton() baton  { return baton{ch: make(chan struct{}, 1)} }
func (b baton) wake()  { b.ch <- struct{}{} }
func (b baton) park()  { <-b.ch }
func (b baton) close() {}
