package sim

import (
	"bytes"
	"fmt"

	"github.com/RoaringBitmap/roaring"
	segment "github.com/blugelabs/bluge_segment_api"
	"pgregory.net/rapid"

	"icesim/model"
)

// Scenario "reuse" (C13): histories of lookups in which every lookup may
// reuse any object produced earlier: postings lists and iterators passed as
// prealloc (from any segment, either encoding, exhausted or half-consumed),
// one Dictionary / DictionaryIterator / DocumentValueReader kept across
// lookups, interleaved with VisitStoredFields (pooled visit contexts).

type ReuseOp struct {
	Kind       int      `json:"kind"` // 0 postings, 1 dictionary iterator steps, 2 doc values, 3 stored, 4 walk an EARLIER postings list again
	Seg        int      `json:"seg"`
	Field      int      `json:"field,omitempty"`
	Term       int      `json:"term,omitempty"`
	Absent     bool     `json:"absent,omitempty"`
	ExceptDocs []uint32 `json:"except,omitempty"`
	Flags      int      `json:"flags,omitempty"`
	PrePL      int      `json:"pre_pl,omitempty"` // 0 none, k>0: object #(k-1 mod n) created so far
	PreIt      int      `json:"pre_it,omitempty"`
	Take       int      `json:"take,omitempty"` // 0 = walk to the end, k>0 = only k steps (leaves the iterator half-consumed), -1 = no step at all
	Doc        int      `json:"doc,omitempty"`
	Restart    bool     `json:"restart,omitempty"`   // dictionary iterator: open a fresh iterator on the kept Dictionary
	Slot       int      `json:"slot,omitempty"`      // dictionary iterator: which of the two iterators kept open per (segment, field)
	Same       bool     `json:"same,omitempty"`      // postings: look up the same (segment, field, term) as the previous postings lookup
	SameBack   bool     `json:"same_back,omitempty"` // postings: look up what the lookup before the previous one looked up, without prealloc
	PreLast    bool     `json:"pre_last,omitempty"`  // postings: pass the most recently returned list as prealloc
}

type ReuseCase struct {
	Ops []ReuseOp `json:"ops"`
}

func init() {
	register(&Scenario{
		Name: "reuse",
		Rule: "non-trivial = at least one lookup passes a previously used postings list or iterator as prealloc, or continues a kept dictionary iterator / doc-value reader after other lookups; distinct = distinct case JSON",
		Gen:  genReuseCase,
		Run:  runReuseCase,
	})
}

func genReuseCase(t *rapid.T, prop string) *Case {
	o := WorldOpts{MinBuilds: 1, MaxBuilds: 3, MaxMerges: 2, BigPct: 7, HugePct: 60, MaxTinyDocs: 10, FewTerms: rapid.IntRange(0, 1).Draw(t, "fewterms") == 0, MoreDV: true, AllowNoID: true, NoIDPct: 25}
	if rapid.IntRange(0, 2).Draw(t, "swarm-nolocs") == 0 {
		o.NoLocs = true
	}
	wd := GenWorld(t, o)
	if rapid.IntRange(0, 3).Draw(t, "twin") == 0 && wd.Segs[0].Merge == nil && len(wd.Segs[0].Batch) >= 2 {
		// a twin of the first build: the same documents in rotated order, so that
		// both segments have the same layout (same offsets) but different contents
		twin := wd.Segs[0]
		twin.Batch = append(append([]Item(nil), wd.Segs[0].Batch[1:]...), wd.Segs[0].Batch[0])
		wd.Segs = append(wd.Segs, twin)
	}
	rc := &ReuseCase{}
	n := rapid.IntRange(2, 30).Draw(t, "nops")
	// swarm: one case in six is about one kind of object (doc-value readers, or
	// dictionary enumerations), so that several of them live side by side long enough
	kinds := []int{0, 0, 0, 0, 0, 1, 1, 2, 2, 3, 4, 4}
	switch rapid.IntRange(0, 11).Draw(t, "focus") {
	case 0:
		kinds = []int{2, 2, 2, 2, 2, 0, 3}
		n += 8
	case 1:
		kinds = []int{1, 1, 1, 1, 0, 4}
		n += 8
	}
	for i := 0; i < n; i++ {
		op := ReuseOp{
			Kind: rapid.SampledFrom(kinds).Draw(t, "kind"),
			Seg:  rapid.IntRange(0, 5).Draw(t, "seg"),
		}
		switch op.Kind {
		case 0:
			op.Field = rapid.IntRange(0, 7).Draw(t, "field")
			op.Term = rapid.IntRange(0, 12).Draw(t, "term")
			op.Absent = rapid.IntRange(0, 9).Draw(t, "absent") == 0
			if rapid.IntRange(0, 3).Draw(t, "hasexcept") == 0 {
				k := rapid.IntRange(0, 4).Draw(t, "nex")
				op.ExceptDocs = []uint32{}
				for j := 0; j < k; j++ {
					op.ExceptDocs = append(op.ExceptDocs, uint32(rapid.IntRange(0, 2200).Draw(t, "exdoc")))
				}
			}
			op.Flags = rapid.IntRange(0, 7).Draw(t, "flags")
			op.PrePL = rapid.IntRange(0, 8).Draw(t, "prepl")
			op.PreIt = rapid.IntRange(0, 8).Draw(t, "preit")
			if rapid.IntRange(0, 2).Draw(t, "partial") == 0 {
				// -1: the iterator is created (and queried) but never stepped
				op.Take = rapid.SampledFrom([]int{-1, 1, 1, 2, 3}).Draw(t, "take")
			}
			op.Same = rapid.IntRange(0, 3).Draw(t, "same") == 0
			op.SameBack = !op.Same && rapid.IntRange(0, 3).Draw(t, "sameback") == 0
			op.PreLast = rapid.IntRange(0, 3).Draw(t, "prelast") == 0
		case 1:
			op.Field = rapid.IntRange(0, 7).Draw(t, "field")
			op.Take = rapid.IntRange(1, 4).Draw(t, "take")
			op.Restart = rapid.IntRange(0, 4).Draw(t, "restart") == 0
			op.Slot = rapid.IntRange(0, 1).Draw(t, "slot")
			// a new enumeration is restricted to a key range [term a, term b) of the
			// field's terms in two cases out of three (Term/Doc select a and b)
			// sticky: half of the enumeration steps go to the dictionary of the previous
			// enumeration step (so that two enumerations of ONE Dictionary interleave)
			op.Same = rapid.IntRange(0, 1).Draw(t, "same-dict") == 0
			if rapid.IntRange(0, 2).Draw(t, "ranged") != 0 {
				op.Term = 1 + rapid.IntRange(0, 12).Draw(t, "range-a")
				op.Doc = rapid.IntRange(0, 12).Draw(t, "range-len")
			}
		case 4:
			op.PrePL = rapid.IntRange(1, 8).Draw(t, "which")
			op.PreIt = rapid.IntRange(0, 8).Draw(t, "preit")
			op.Flags = rapid.IntRange(0, 7).Draw(t, "flags")
		default:
			if op.Kind == 3 {
				// stored visits: sometimes the visitor stops early (the pooled context
				// goes back with unread entries), sometimes the visit aims at a
				// document without any stored value
				op.Take = rapid.SampledFrom([]int{0, 0, 1, 1, 2}).Draw(t, "stop-after")
				op.Absent = rapid.IntRange(0, 2).Draw(t, "prefer-empty") == 0
			}
			op.Slot = rapid.IntRange(0, 1).Draw(t, "dvslot")
			if op.Kind == 2 {
				// sticky: two doc-value visits in three go to the segment of the previous
				// doc-value visit (so that the two readers of ONE segment interleave)
				op.Same = rapid.IntRange(0, 2).Draw(t, "same-dvseg") != 0
			}
			if rapid.IntRange(0, 1).Draw(t, "edge") == 0 {
				op.Doc = rapid.SampledFrom([]int{0, 5, 127, 128, 1000, 1023, 1024, 1025, 1500, 2047, 2048, 2049, 3071, 3072}).Draw(t, "edgedoc")
			} else {
				op.Doc = rapid.IntRange(0, 2200).Draw(t, "doc")
			}
		}
		rc.Ops = append(rc.Ops, op)
	}
	return &Case{World: wd, Reuse: rc}
}

type dictKey struct {
	seg   int
	field string
	slot  int
}

type openDictIter struct {
	it   segment.DictionaryIterator
	pos  int
	all  []model.TermObs // what this enumeration must deliver (the field's terms, or a key range of them)
	desc string
}

func runReuseCase(c *Case, env *Env) *Result {
	res := &Result{SubRuns: 1}
	sched := NewSched(nil)
	defer res.absorb(sched)
	w, fail := BuildWorldFor(env.Prop, c.World, sched)
	if fail != nil {
		res.Fail = fail
		return res
	}
	res.Shape = worldShape(w)
	var pls []segment.PostingsList
	var its []segment.PostingsIterator
	// what each postings list object currently stands for (the latest lookup
	// that returned it): it must keep answering that, whatever else was
	// looked up or reused since
	plWant := map[segment.PostingsList][]model.PostObs{}
	plDesc := map[segment.PostingsList]string{}
	plInfo := []string{}
	dicts := map[dictKey]segment.Dictionary{}
	dictIts := map[dictKey]*openDictIter{}
	dvrs := map[int]segment.DocumentValueReader{}
	otherSince := map[dictKey]bool{}

	var keyBuf []byte // one scratch buffer for all term keys, as a caller tokenising into a reused slice has
	var lastPL segment.PostingsList
	type lookup struct {
		seg, field, term int
		absent           bool
	}
	var hist []lookup
	lastEnumSeg, lastEnumField := -1, 0
	lastDVSeg := -1
	for oi, op := range c.Reuse.Ops {
		if op.Kind == 2 {
			if op.Same && lastDVSeg >= 0 {
				op.Seg = lastDVSeg
			}
			lastDVSeg = op.Seg
		}
		if op.Kind == 1 {
			if op.Same && lastEnumSeg >= 0 {
				op.Seg, op.Field = lastEnumSeg, lastEnumField
			}
			lastEnumSeg, lastEnumField = op.Seg, op.Field
		}
		if op.Kind == 0 {
			if op.Same && len(hist) >= 1 {
				l := hist[len(hist)-1]
				op.Seg, op.Field, op.Term, op.Absent = l.seg, l.field, l.term, l.absent
			} else if op.SameBack && len(hist) >= 2 {
				l := hist[len(hist)-2]
				op.Seg, op.Field, op.Term, op.Absent = l.seg, l.field, l.term, l.absent
				op.PrePL, op.PreLast = 0, false // a plain lookup of the earlier term again
			}
			hist = append(hist, lookup{op.Seg, op.Field, op.Term, op.Absent})
		}
		ws := w.Segs[op.Seg%len(w.Segs)]
		exp := ws.Exp()
		cnt := len(ws.Docs)
		var f *Fail
		where := fmt.Sprintf("op #%d seg %d (%s, %d docs)", oi, ws.Idx, ws.Def.Store, cnt)
		pi := Guard(func() {
			switch op.Kind {
			case 0:
				names := append(append([]string(nil), ws.Fields...), model.UnknownField)
				field := names[op.Field%len(names)]
				key := dictKey{ws.Idx, field, 0}
				dict := dicts[key]
				if dict == nil {
					d, err := ws.Seg.Dictionary(field)
					if err != nil {
						f = apiFail("C13", "reuse", "Dictionary", nil, err)
						return
					}
					dict = d
					dicts[key] = d
				} else {
					res.probe("dictionary-object-reused")
				}
				all := exp.Dicts[field]
				term := []byte("absent-term")
				var list []model.PostObs
				if !op.Absent && len(all) > 0 {
					to := all[op.Term%len(all)]
					term, list = to.Term, to.Posts
				}
				var except *roaring.Bitmap
				excluded := map[uint64]bool{}
				if op.ExceptDocs != nil {
					except = roaring.New()
					if cnt > 0 {
						for _, d := range op.ExceptDocs {
							except.Add(d % uint32(cnt))
							excluded[uint64(d%uint32(cnt))] = true
						}
					}
				}
				var want []model.PostObs
				for _, p := range list {
					if !excluded[p.Doc] {
						want = append(want, p)
					}
				}
				var prePL segment.PostingsList
				var preIt segment.PostingsIterator
				desc := ""
				if op.PrePL > 0 && len(pls) > 0 {
					k := (op.PrePL - 1) % len(pls)
					prePL = pls[k]
					desc += " prealloc-list=" + plInfo[k]
					res.probe("prealloc-postings-list")
					res.NonTrivial = true
				}
				if op.PreLast && lastPL != nil {
					prePL = lastPL
					desc += " prealloc-list=<the most recently returned list>"
					res.probe("prealloc-most-recent-list")
					res.NonTrivial = true
				}
				if op.PreIt > 0 && len(its) > 0 {
					k := (op.PreIt - 1) % len(its)
					preIt = its[k]
					desc += fmt.Sprintf(" prealloc-iterator=#%d", k)
					res.probe("prealloc-iterator")
					res.NonTrivial = true
				}
				where += fmt.Sprintf(" postings %s:%q flags %03b%s", field, string(term), op.Flags, desc)
				keyBuf = append(keyBuf[:0], term...)
				pl, err := dict.PostingsList(keyBuf, except, prePL)
				lastPL = pl
				if err != nil {
					f = apiFail("C13", "reuse", "PostingsList", nil, err)
					return
				}
				if got := pl.Count(); got != uint64(len(want)) {
					f = mismatch("C13", "reuse", "count", fmt.Sprintf("%s: Count()=%d want %d", where, got, len(want)))
					return
				}
				wf, wn, wl := op.Flags&1 != 0, op.Flags&2 != 0, op.Flags&4 != 0
				it, err := pl.Iterator(wf, wn, wl, preIt)
				if err != nil {
					f = apiFail("C13", "reuse", "PostingsList.Iterator", nil, err)
					return
				}
				kind := "general"
				if ws.Kind == model.Merged && len(list) == 1 && list[0].Freq == 1 && len(list[0].Locs) == 0 {
					kind = "1-hit"
				}
				if len(list) == 0 {
					kind = "empty"
				}
				pls = append(pls, pl)
				its = append(its, it)
				plWant[pl] = want
				plDesc[pl] = fmt.Sprintf("%s:%q of seg %d (looked up by op #%d)", field, string(term), ws.Idx, oi)
				plInfo = append(plInfo, fmt.Sprintf("#%d(%s,seg%d)", len(pls)-1, kind, ws.Idx))
				// the optimisation interface (what conjunction/disjunction optimisers of
				// the index layer look at before stepping) must answer as for fresh objects
				if d := diffOptimizable(ws, field, keyBuf, except, wf, wn, wl, it); d != "" {
					f = mismatch("C13", "reuse", "optimizable", fmt.Sprintf("%s: %s", where, d))
					return
				}
				steps := len(want) + 1
				if op.Take > 0 && op.Take < steps {
					steps = op.Take
					res.probe("half-consumed-iterator-left")
				}
				if op.Take < 0 {
					steps = 0
					res.probe("iterator-created-but-never-stepped")
				}
				for s := 0; s < steps; s++ {
					p, err := it.Next()
					if err != nil {
						f = apiFail("C13", "reuse", "PostingsIterator.Next", nil, err)
						return
					}
					if s >= len(want) {
						if p != nil {
							f = mismatch("C13", "reuse", "postings", fmt.Sprintf("%s: unexpected posting doc %d after the end (want %d postings)", where, p.Number(), len(want)))
						}
						return
					}
					if p == nil {
						f = mismatch("C13", "reuse", "postings", fmt.Sprintf("%s: posting #%d missing (want doc %d of %d postings)", where, s, want[s].Doc, len(want)))
						return
					}
					got := ReadPosting(p, wf, wn, wl)
					w2 := want[s]
					if !wf {
						w2.Freq = 0
					}
					if !wn {
						w2.Norm = 0
					}
					if !wl {
						w2.Locs = nil
					}
					if d := model.DiffPost(&got, &w2); d != "" {
						f = mismatch("C13", "reuse", "postings", fmt.Sprintf("%s: posting #%d %s", where, s, d))
						return
					}
				}
				for k := range otherSince {
					otherSince[k] = true
				}
			case 1:
				names := append(append([]string(nil), ws.Fields...), model.UnknownField)
				field := names[op.Field%len(names)]
				key := dictKey{ws.Idx, field, 0}
				dict := dicts[key]
				if dict == nil {
					d, err := ws.Seg.Dictionary(field)
					if err != nil {
						f = apiFail("C13", "reuse", "Dictionary", nil, err)
						return
					}
					dict = d
					dicts[key] = d
				}
				ikey := dictKey{ws.Idx, field, op.Slot}
				odi := dictIts[ikey]
				if odi == nil || op.Restart {
					if odi != nil {
						// done with the earlier enumeration: close it (the Dictionary it came
						// from stays in use)
						if err := odi.it.Close(); err != nil {
							f = apiFail("C13", "reuse", "DictionaryIterator.Close", nil, err)
							return
						}
						res.probe("dictionary-iterator-closed-dictionary-still-in-use")
					}
					all := exp.Dicts[field]
					odi = &openDictIter{all: all}
					if op.Term > 0 && len(all) > 0 {
						a := (op.Term - 1) % len(all)
						b := a + op.Doc%(len(all)-a+1)
						start := append([]byte(nil), all[a].Term...)
						var end []byte
						if b < len(all) {
							end = append([]byte(nil), all[b].Term...)
						}
						if op.Doc%6 == 5 {
							// a valid range that holds no term at all: just behind term a
							start = append(start, 0)
							end = append(append([]byte(nil), start...), 0)
							empty := true
							for _, to := range all {
								if bytes.Compare(to.Term, start) >= 0 && bytes.Compare(to.Term, end) < 0 {
									empty = false
								}
							}
							if empty {
								odi.all = nil
								odi.desc = fmt.Sprintf(" over the key range [%q,%q), which holds no term", string(start), string(end))
								odi.it = dict.Iterator(nil, start, end)
								res.probe("dictionary-enumeration-over-an-empty-key-range")
							}
						} else if a != b || end == nil {
							odi.all = all[a:b]
							if end == nil {
								odi.all = all[a:]
							}
							odi.desc = fmt.Sprintf(" over the key range [%q,%q)", string(start), string(end))
							// (start and end stay untouched while the enumeration is open: the
							// FST iterator refers to the caller's slices, which the interface
							// does not forbid)
							odi.it = dict.Iterator(nil, start, end)
							res.probe("dictionary-enumeration-over-a-key-range")
						}
					}
					if odi.it == nil {
						odi.it = dict.Iterator(nil, nil, nil)
					}
					dictIts[ikey] = odi
					otherSince[ikey] = false
					if dictIts[dictKey{ws.Idx, field, 1 - op.Slot}] != nil {
						res.probe("two-iterators-open-on-one-dictionary")
						res.NonTrivial = true
					}
				} else if otherSince[ikey] {
					res.probe("dictionary-iterator-continued-after-other-lookups")
					res.NonTrivial = true
				}
				all := odi.all
				where += fmt.Sprintf(" dictionary iterator %q%s from entry %d", field, odi.desc, odi.pos)
				for s := 0; s < op.Take; s++ {
					e, err := odi.it.Next()
					if err != nil {
						f = apiFail("C13", "reuse", "DictionaryIterator.Next", nil, err)
						return
					}
					if odi.pos >= len(all) {
						if e != nil {
							f = mismatch("C13", "reuse", "dict", fmt.Sprintf("%s: unexpected entry %q after the end", where, e.Term()))
						}
						return
					}
					if e == nil {
						f = mismatch("C13", "reuse", "dict", fmt.Sprintf("%s: entry #%d %q missing", where, odi.pos, string(all[odi.pos].Term)))
						return
					}
					if !bytes.Equal([]byte(e.Term()), all[odi.pos].Term) || e.Count() != all[odi.pos].Count {
						f = mismatch("C13", "reuse", "dict", fmt.Sprintf("%s: entry #%d got %q/%d want %q/%d", where, odi.pos, e.Term(), e.Count(), string(all[odi.pos].Term), all[odi.pos].Count))
						return
					}
					odi.pos++
				}
			case 4:
				if len(pls) == 0 {
					return
				}
				pl := pls[(op.PrePL-1)%len(pls)]
				want := plWant[pl]
				var preIt segment.PostingsIterator
				if op.PreIt > 0 && len(its) > 0 {
					preIt = its[(op.PreIt-1)%len(its)]
				}
				where = fmt.Sprintf("op #%d: walking the earlier postings list %s again, flags %03b", oi, plDesc[pl], op.Flags)
				res.probe("earlier-postings-list-walked-again")
				res.NonTrivial = true
				if got := pl.Count(); got != uint64(len(want)) {
					f = mismatch("C13", "reuse", "count", fmt.Sprintf("%s: Count()=%d want %d", where, got, len(want)))
					return
				}
				wf, wn, wl := op.Flags&1 != 0, op.Flags&2 != 0, op.Flags&4 != 0
				it, err := pl.Iterator(wf, wn, wl, preIt)
				if err != nil {
					f = apiFail("C13", "reuse", "PostingsList.Iterator", nil, err)
					return
				}
				its = append(its, it)
				for s := 0; s <= len(want); s++ {
					p, err := it.Next()
					if err != nil {
						f = apiFail("C13", "reuse", "PostingsIterator.Next", nil, err)
						return
					}
					if s == len(want) {
						if p != nil {
							f = mismatch("C13", "reuse", "postings", fmt.Sprintf("%s: unexpected posting doc %d after the end (want %d postings)", where, p.Number(), len(want)))
						}
						return
					}
					if p == nil {
						f = mismatch("C13", "reuse", "postings", fmt.Sprintf("%s: posting #%d missing (want doc %d of %d postings)", where, s, want[s].Doc, len(want)))
						return
					}
					got := ReadPosting(p, wf, wn, wl)
					w2 := want[s]
					if !wf {
						w2.Freq = 0
					}
					if !wn {
						w2.Norm = 0
					}
					if !wl {
						w2.Locs = nil
					}
					if d := model.DiffPost(&got, &w2); d != "" {
						f = mismatch("C13", "reuse", "postings", fmt.Sprintf("%s: posting #%d %s", where, s, d))
						return
					}
				}
			case 2:
				if cnt == 0 {
					return
				}
				// two readers are kept per segment (Slot), used alternately
				dvKey := ws.Idx*2 + op.Slot%2
				dvr := dvrs[dvKey]
				if dvr == nil {
					d, err := ws.Seg.DocumentValueReader(append(append([]string(nil), ws.Fields...), model.UnknownField))
					if err != nil {
						f = apiFail("C13", "reuse", "DocumentValueReader", nil, err)
						return
					}
					dvr = d
					dvrs[dvKey] = d
					if dvrs[ws.Idx*2+1-op.Slot%2] != nil {
						res.probe("two-docvalue-readers-open-on-one-segment")
					}
				} else {
					res.probe("docvalue-reader-reused")
					res.NonTrivial = true
				}
				n := op.Doc % cnt
				var got []model.FV
				err := dvr.VisitDocumentValues(uint64(n), func(field string, term []byte) {
					got = append(got, model.FV{F: field, V: append(model.Bytes{}, term...)})
				})
				if err != nil {
					f = apiFail("C13", "reuse", "VisitDocumentValues", nil, err)
					return
				}
				if d := model.DiffFV(got, exp.DV[n]); d != "" {
					f = mismatch("C13", "reuse", "docvalues", fmt.Sprintf("%s VisitDocumentValues(%d): %s", where, n, d))
				}
				for k := range otherSince {
					otherSince[k] = true
				}
			case 3:
				if cnt == 0 {
					return
				}
				n := op.Doc % cnt
				if op.Absent {
					for k := 0; k < cnt && k < 300; k++ {
						if len(exp.Stored[(n+k)%cnt]) == 0 {
							n = (n + k) % cnt
							res.probe("visit-of-a-document-without-stored-values")
							break
						}
					}
				}
				var got []model.FV
				err := ws.Seg.VisitStoredFields(uint64(n), func(field string, value []byte) bool {
					got = append(got, model.FV{F: field, V: append(model.Bytes{}, value...)})
					return op.Take == 0 || len(got) < op.Take
				})
				if err != nil {
					f = apiFail("C13", "reuse", "VisitStoredFields", nil, err)
					return
				}
				want := exp.Stored[n]
				if op.Take > 0 && len(want) > op.Take {
					want = want[:op.Take]
					res.probe("stored-visit-stopped-early")
				}
				if d := model.DiffFV(got, want); d != "" {
					f = mismatch("C13", "reuse", "stored", fmt.Sprintf("%s VisitStoredFields(%d), visitor stopping after %d values (0: never): %s", where, n, op.Take, d))
				}
				for k := range otherSince {
					otherSince[k] = true
				}
			}
		})
		if pi != nil {
			res.Fail = &Fail{Prop: "C13", Oracle: "reuse", Kind: "panic", Site: pi.Site, Detail: where + " panicked: " + pi.Msg}
			return res
		}
		if f != nil {
			res.Fail = f
			return res
		}
	}
	return res
}

// diffOptimizable compares what segment.OptimizablePostingsIterator reports
// for an iterator (possibly recycled, over a possibly recycled list) with what
// an iterator made from fresh objects reports for the same lookup.
func diffOptimizable(ws *WSeg, field string, term []byte, except *roaring.Bitmap, wf, wn, wl bool, it segment.PostingsIterator) string {
	oi, ok := it.(segment.OptimizablePostingsIterator)
	if !ok {
		return ""
	}
	fd, err := ws.Seg.Dictionary(field)
	if err != nil {
		return ""
	}
	fpl, err := fd.PostingsList(append([]byte(nil), term...), except, nil)
	if err != nil {
		return ""
	}
	fit, err := fpl.Iterator(wf, wn, wl, nil)
	if err != nil {
		return ""
	}
	fo, ok := fit.(segment.OptimizablePostingsIterator)
	if !ok {
		return ""
	}
	gn, g1 := oi.DocNum1Hit()
	wn1, w1 := fo.DocNum1Hit()
	if g1 != w1 || (g1 && gn != wn1) {
		return fmt.Sprintf("DocNum1Hit() = (%d,%v), an iterator made from fresh objects reports (%d,%v)", gn, g1, wn1, w1)
	}
	gb, wb := oi.ActualBitmap(), fo.ActualBitmap()
	if (gb == nil) != (wb == nil) {
		return fmt.Sprintf("ActualBitmap() nil=%v, for an iterator made from fresh objects nil=%v", gb == nil, wb == nil)
	}
	if gb != nil && !gb.Equals(wb) {
		return fmt.Sprintf("ActualBitmap() = %v, an iterator made from fresh objects reports %v", head32(gb), head32(wb))
	}
	return ""
}

func head32(b *roaring.Bitmap) []uint32 {
	a := b.ToArray()
	if len(a) > 12 {
		a = a[:12]
	}
	return a
}
