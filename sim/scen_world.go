package sim

import (
	"fmt"
	"hash/fnv"

	"pgregory.net/rapid"

	"icesim/model"
)

// Scenario "world": build (and merge) segments from a generated world
// definition and apply the oracle of the property under check to every
// segment. Serves C01, C02, C03, C04, C11, C16.

func init() {
	register(&Scenario{
		Name: "world",
		Rule: "a case is non-trivial when some segment under the oracle has >=2 documents sharing a term, or a multi-chunk postings list, or a repeated field; for merge properties additionally >=1 merge with >=1 survivor or a degenerate (zero-survivor/zero-document) merge; distinct = distinct case JSON",
		Gen:  genWorldCase,
		Run:  runWorldCase,
	})
}

func worldOptsFor(prop string, t *rapid.T) WorldOpts {
	o := WorldOpts{MinBuilds: 1, MaxBuilds: 2, BigPct: 4, HugePct: 25, AllowNoID: true}
	switch prop {
	case "C01":
		o.MaxBuilds = 1
	case "C02", "C03", "C17":
		o.MaxBuilds = 3
		o.MaxMerges = 3
		o.BigPct = 4
		o.HugePct = 45
	case "C07":
		o.MaxBuilds = 3
		o.MaxMerges = 3
		o.BigPct = 2
		o.MoreDV = true
	case "C04", "C11", "C16":
		o.MaxBuilds = 3
		o.MaxMerges = 2
		o.BigPct = 3
	}
	// swarm: per-run restrictions
	if rapid.IntRange(0, 4).Draw(t, "swarm-nolocs") == 0 {
		o.NoLocs = true
	}
	if rapid.IntRange(0, 4).Draw(t, "swarm-fewfields") == 0 {
		o.FewFields = true
	}
	return o
}

func genWorldCase(t *rapid.T, prop string) *Case {
	o := worldOptsFor(prop, t)
	wd := GenWorld(t, o)
	if prop == "C02" || prop == "C03" {
		// make sure there is at least one merge
		hasMerge := false
		for i := range wd.Segs {
			if wd.Segs[i].Merge != nil {
				hasMerge = true
			}
		}
		if !hasMerge {
			wd.Segs = append(wd.Segs, SegDef{
				Merge: genMergeDef(t, len(wd.Segs)),
				Mode:  rapid.SampledFrom(chunkModes).Draw(t, "mmode"),
				Store: rapid.SampledFrom([]string{StoreMem, StoreFile}).Draw(t, "mstore"),
			})
		}
	}
	return &Case{World: wd}
}

// worldShape hashes the coarse shape of a built world.
func worldShape(w *World) uint64 {
	h := fnv.New64a()
	for _, s := range w.Segs {
		fmt.Fprintf(h, "%d/%d/%d/%s/%d/%d;", s.Kind, len(s.Docs), s.Def.Mode, s.Def.Store, len(s.Fields), len(s.Bytes))
	}
	return h.Sum64()
}

// interesting reports model-level facts used by non-triviality rules and probes.
func segFacts(ws *WSeg, res *Result) (nontrivial bool) {
	exp := ws.Exp()
	for _, terms := range exp.Dicts {
		for _, t := range terms {
			if len(t.Posts) >= 2 {
				nontrivial = true
			}
			if len(t.Posts) > 1024 {
				res.probe("term-in->1024-docs")
			}
			if len(t.Posts) == 1 && t.Posts[0].Freq == 1 && len(t.Posts[0].Locs) == 0 && ws.Kind == model.Merged {
				res.probe("1-hit-eligible-term")
			}
			if len(t.Term) == 0 {
				res.probe("empty-term")
			}
		}
	}
	mode := ws.Def.Mode
	if mode > 0 && mode < 64 && len(ws.Docs) > int(mode) {
		res.probe("multi-chunk-fixed-mode")
		nontrivial = true
	}
	for _, sd := range ws.Docs {
		seen := map[string]bool{}
		for i := range sd.D.Fields {
			if seen[sd.D.Fields[i].Name] {
				res.probe("repeated-field")
				nontrivial = true
				break
			}
			seen[sd.D.Fields[i].Name] = true
		}
	}
	if len(ws.Docs) == 0 {
		res.probe("zero-doc-segment")
	}
	if len(ws.Docs) > 128 {
		res.probe("multi-block-stored")
	}
	if len(ws.Docs) > 1024 {
		res.probe("multi-chunk-docvalues")
	}
	return nontrivial
}

func runWorldCase(c *Case, env *Env) *Result {
	res := &Result{SubRuns: 1}
	sched := NewSched(nil)
	defer res.absorb(sched)
	w, fail := BuildWorldFor(env.Prop, c.World, sched)
	if fail != nil {
		res.Fail = fail
		return res
	}
	res.Shape = worldShape(w)
	for _, ws := range w.Segs {
		nt := segFacts(ws, res)
		if ws.Kind == model.Merged {
			res.probe("merge")
			if len(ws.Docs) == 0 {
				res.probe("zero-survivor-merge")
				nt = true
			}
			if ws.Def.Merge.Public {
				res.probe("merge-public-api")
			}
			for _, in := range ws.Inputs {
				if in.Kind == model.Merged {
					res.probe("merge-of-merge")
				}
			}
		}
		var f *Fail
		switch env.Prop {
		case "C01":
			if ws.Kind != model.Built {
				continue
			}
			res.NonTrivial = res.NonTrivial || nt
			f = checkModel("C01", ws, ws.Seg, "view:"+ws.Def.Store, false)
			if f == nil && ws.Seg != ws.Orig {
				f = checkModel("C01", ws, ws.Orig, "as returned by New", false)
			}
		case "C02":
			if ws.Kind != model.Merged {
				continue
			}
			res.NonTrivial = res.NonTrivial || nt || len(ws.Docs) > 0
			f = checkModel("C02", ws, ws.Seg, "merged,"+ws.Def.Store, false)
		case "C03":
			if ws.Kind != model.Merged {
				continue
			}
			res.NonTrivial = true
			f = checkDocNums(ws)
		case "C07":
			// doc values of every document of every segment (built and merged)
			res.NonTrivial = res.NonTrivial || (len(ws.Docs) > 0 && (nt || ws.Kind == model.Merged))
			got, ff := Observe("C07", ws.Seg, ObsOpts{SkipDicts: true, SkipStored: true, SkipStats: true})
			if ff != nil {
				f = ff
			} else if d := diffFVsExported(got.DV, ws.Exp().DV); d != "" {
				f = mismatch("C07", "docvalues", "values", fmt.Sprintf("seg %d (%s, kind %d, %d docs): %s", ws.Idx, ws.Def.Store, ws.Kind, len(ws.Docs), d))
			}
		case "C04":
			res.NonTrivial = res.NonTrivial || nt || len(ws.Docs) == 0 || ws.Kind == model.Merged
			f = checkRoundtrip(ws, sched, res)
		case "C11":
			res.NonTrivial = res.NonTrivial || nt || ws.Kind == model.Merged
			f = checkFooterAll(ws, sched, res)
		case "C16":
			res.NonTrivial = res.NonTrivial || nt || ws.Kind == model.Merged
			f = checkStats(ws, ws.Seg, ws.Def.Store)
			if f == nil && ws.Orig != nil && ws.Orig != ws.Seg {
				f = checkStats(ws, ws.Orig, "as returned by New")
			}
			if f == nil && ws.Idx > 0 {
				for _, fld := range ws.Fields {
					if f = checkStatsMergeAdds(ws.Seg, w.Segs[ws.Idx-1].Seg, fld); f != nil {
						break
					}
					// and the other way round: the earlier segment's answer (often for a
					// field it does not know) receives this segment's numbers
					if f = checkStatsMergeAdds(w.Segs[ws.Idx-1].Seg, ws.Seg, fld); f != nil {
						break
					}
				}
				if f == nil {
					f = checkStatsMergeAdds(ws.Seg, w.Segs[0].Seg, model.UnknownField)
				}
			}
			if f == nil {
				f = checkStatsMergeForeign(ws.Seg, ws.Fields[len(ws.Fields)-1])
			}
		default:
			panic(&HarnessPanic{Msg: "scenario world has no oracle for " + env.Prop})
		}
		if f != nil {
			res.Fail = f
			return res
		}
	}
	return res
}
