//go:build race

package sim

import (
	"syscall"
	"unsafe"
)

// RaceBuild reports whether this binary was built with -race.
const RaceBuild = true

// baton (race build): a pipe driven by raw system calls. The race detector
// derives happens-before only from the runtime's own primitives (channels,
// sync, atomics, the annotated syscall.Read/Write wrappers); raw
// syscall.Syscall is invisible to it. Tasks therefore execute strictly one at
// a time in the order the schedule dictates, yet appear unordered to the
// detector except for the synchronisation ice itself performs - so every pair
// of conflicting accesses by two tasks that ice does not order is reported,
// deterministically, without the accesses having to collide in real time.
type baton struct{ r, w int }

func newBaton() baton {
	var p [2]int
	if err := syscall.Pipe(p[:]); err != nil {
		panic(err)
	}
	return baton{r: p[0], w: p[1]}
}

//go:norace
func (b baton) wake() {
	var one = [1]byte{1}
	for {
		n, _, e := syscall.Syscall(syscall.SYS_WRITE, uintptr(b.w), uintptr(unsafe.Pointer(&one[0])), 1)
		if e == syscall.EINTR {
			continue
		}
		if e != 0 || n != 1 {
			panic("baton write failed")
		}
		return
	}
}

//go:norace
func (b baton) park() {
	var one [1]byte
	for {
		n, _, e := syscall.Syscall(syscall.SYS_READ, uintptr(b.r), uintptr(unsafe.Pointer(&one[0])), 1)
		if e == syscall.EINTR {
			continue
		}
		if e != 0 || n != 1 {
			panic("baton read failed")
		}
		return
	}
}

func (b baton) close() {
	syscall.Close(b.r)
	syscall.Close(b.w)
}
