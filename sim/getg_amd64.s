#include "textflag.h"

// func getg() uintptr
// The address of the running goroutine's descriptor: a cheap goroutine
// identity (used only to tell a task's own goroutine from goroutines the code
// under test may have started itself).
TEXT ·getg(SB),NOSPLIT,$0-8
	MOVQ (TLS), AX
	MOVQ AX, ret+0(FP)
	RET
