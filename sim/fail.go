package sim

import (
	"fmt"
	"os"
	"runtime"
	"strings"
)

// Fail is one violation found by an oracle.
type Fail struct {
	Prop   string `json:"property"` // home property of the oracle
	Oracle string `json:"oracle"`   // which oracle
	Kind   string `json:"kind"`     // mismatch | panic | error | hang | race | lock | silent-success
	Site   string `json:"site"`     // topmost ice function for panics, API/op name otherwise
	Detail string `json:"detail"`   // human-readable specifics (not part of the class)
}

// Class is the violation class used for shrinking and known-finding matching.
func (f *Fail) Class() string {
	return fmt.Sprintf("%s/%s/%s/%s", f.Prop, f.Oracle, f.Kind, f.Site)
}

func (f *Fail) String() string {
	return fmt.Sprintf("property=%s oracle=%s kind=%s site=%s: %s", f.Prop, f.Oracle, f.Kind, f.Site, f.Detail)
}

// PanicInfo describes a recovered panic.
type PanicInfo struct {
	Msg   string
	Site  string // topmost function of the ice package on the panicking stack
	InIce bool
}

const icePkg = "github.com/blugelabs/ice/v2."
const refPkg = "icesim/refice."

// HarnessPanic is re-raised for panics that have no ice frame between the
// guard and the panic site: those are harness bugs, never violations.
type HarnessPanic struct {
	Msg   string
	Stack string
}

// Guard runs f and converts a panic into PanicInfo. The stack is inspected
// from inside the deferred function, where the panicking frames are still
// present. Panics without any ice frame above the guard are re-raised as
// HarnessPanic.
func Guard(f func()) (pi *PanicInfo) {
	defer func() {
		r := recover()
		if r == nil {
			return
		}
		if hp, ok := r.(*HarnessPanic); ok {
			panic(hp)
		}
		pcs := make([]uintptr, 64)
		n := runtime.Callers(2, pcs)
		frames := runtime.CallersFrames(pcs[:n])
		site := ""
		var sb strings.Builder
		for {
			fr, more := frames.Next()
			fmt.Fprintf(&sb, "%s\n\t%s:%d\n", fr.Function, fr.File, fr.Line)
			if strings.HasSuffix(fr.Function, "sim.Guard") {
				break
			}
			if site == "" && strings.HasPrefix(fr.Function, icePkg) {
				site = strings.TrimPrefix(fr.Function, icePkg)
			}
			if site == "" && strings.HasPrefix(fr.Function, refPkg) {
				// the frozen reference copy choking on what the code under test wrote
				site = "reference:" + strings.TrimPrefix(fr.Function, refPkg)
			}
			if !more {
				break
			}
		}
		if site == "" {
			panic(&HarnessPanic{Msg: fmt.Sprint(r), Stack: sb.String()})
		}
		// strip closure suffixes so the site is stable: (*Segment).visitDocument.func1 -> (*Segment).visitDocument
		if i := strings.Index(site, ".func"); i > 0 {
			site = site[:i]
		}
		if os.Getenv("ICESIM_DEBUG") != "" {
			fmt.Fprintf(os.Stderr, "panic: %v\n%s\n", r, sb.String())
		}
		pi = &PanicInfo{Msg: fmt.Sprint(r), Site: site, InIce: true}
	}()
	f()
	return nil
}
