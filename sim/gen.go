package sim

import (
	"fmt"
	"strings"

	"pgregory.net/rapid"

	"icesim/model"
)

// Generators. rapid is the sole choice source; everything drawn here ends up
// in the explicit Case, so execution never consults a PRNG.

var fieldPool = []string{"a", "b", "c", "all", "so", "Z", "~t", "f", "a_rather_long_field_name_to_get_multibyte_lengths_in_the_fields_section_0123456789",
	"n" + strings.Repeat("_200_byte_field_name", 10),
	// several names sorting before "_id", the empty name, "_id" itself as an
	// ordinary field (multi-token identifiers), names around 57-62 and 127-129 bytes
	"A", "0", "_all", "", "_id",
	"w" + strings.Repeat("x", 56), "w" + strings.Repeat("y", 58), "w" + strings.Repeat("z", 59), "w" + strings.Repeat("q", 61),
	"v" + strings.Repeat("1", 126), "v" + strings.Repeat("2", 127), "v" + strings.Repeat("3", 128),
}

// vocabulary: empty, shared prefixes, binary, high bytes, long; no 0xff (doc
// value contract) except the last entry, which is only used in non-DV fields.
var vocab = []string{
	"", "a", "ab", "abc", "b", "ba", "c", "cat", "dog", "\x00", "\x00\x01", "\xfe", "z\xc3\xa9",
	"zz", "m", "mn", strings.Repeat("long-term-", 7), "\xff\x01",
}

// extreme terms, used only when a case draws the "extremes" switch
var vocabExtreme = []string{strings.Repeat("very-long-term/", 70), strings.Repeat("x", 128), strings.Repeat("y", 127), "a\x00", "ab\x00\x00",
	strings.Repeat("k", 16382), strings.Repeat("k", 16383), strings.Repeat("k", 16384), strings.Repeat("j", 65535)}

const vocabNoFF = 17 // vocab[:vocabNoFF] contains no 0xff byte

// Modes offered for builds and hook merges.
var chunkModes = []uint32{1025, 1025, 1025, 1, 2, 3, 5, 7, 64, 1024}

type WorldOpts struct {
	MinBuilds, MaxBuilds int
	MaxMerges            int // merge definitions appended after the builds
	BigPct               int // percentage of builds drawn from the block/chunk classes
	HugePct              int // of which: percentage of the >1024 classes
	Stores               []string
	NoLocs               bool // never generate locations (1-hit friendly)
	MaxTinyDocs          int
	FewFields            bool
	AllowNoID            bool
	NoIDPct              int  // percentage of builds without the injected _id field (default 5)
	FewTerms             bool // small vocabulary: dense postings lists
	MoreDV               bool // bias towards doc-value fields
	NoExtremes           bool // never draw the rare extreme value ranges (fault enumerations keep workloads small)
}

func (o *WorldOpts) defaults() {
	if o.MinBuilds == 0 {
		o.MinBuilds = 1
	}
	if o.MaxBuilds == 0 {
		o.MaxBuilds = 1
	}
	if len(o.Stores) == 0 {
		o.Stores = []string{StoreBuilt, StoreMem, StoreFile}
	}
	if o.MaxTinyDocs == 0 {
		o.MaxTinyDocs = 6
	}
}

type schema struct {
	mixedDV bool // some instances of doc-value fields opt out of doc values
	noXXL   bool // set while generating templates of repeated blocks
	extreme bool
	fields  []string
	dv      map[string]bool
	terms   []string
	locPct  int
}

func genSchema(t *rapid.T, o *WorldOpts) *schema {
	s := &schema{dv: map[string]bool{}}
	nf := rapid.IntRange(1, 5).Draw(t, "nfields")
	if o.FewFields {
		nf = rapid.IntRange(1, 2).Draw(t, "nfields2")
	}
	for i := 0; i < nf; i++ {
		// the first nine names are the common ones; the rest are the unusual ones
		if rapid.IntRange(0, 3).Draw(t, "unusualname") == 0 {
			s.fields = append(s.fields, fieldPool[rapid.IntRange(9, len(fieldPool)-1).Draw(t, "fieldx")])
		} else {
			s.fields = append(s.fields, fieldPool[rapid.IntRange(0, 8).Draw(t, "field")])
		}
	}
	seen := map[string]bool{}
	w := 0
	for _, f := range s.fields {
		if !seen[f] {
			seen[f] = true
			s.fields[w] = f
			w++
		}
	}
	s.fields = s.fields[:w]
	dvMask := rapid.IntRange(0, 1<<uint(len(s.fields))-1).Draw(t, "dvmask")
	if o.MoreDV && rapid.IntRange(0, 1).Draw(t, "alldv") == 0 {
		dvMask = 1<<uint(len(s.fields)) - 1
	}
	for i, f := range s.fields {
		if dvMask&(1<<uint(i)) != 0 {
			s.dv[f] = true
		}
	}
	if rapid.IntRange(0, 7).Draw(t, "iddv") == 0 {
		s.dv[model.IDField] = true // the injected _id field is indexed with doc values too
	}
	s.mixedDV = rapid.IntRange(0, 3).Draw(t, "mixeddv") == 0
	// swarm switch "extremes" (rare): value ranges ordinary cases never reach -
	// >127 fields (two-byte field ids), 32-bit-wide frequencies, positions and
	// offsets, kilobyte terms, 70 kB / 200 kB stored values
	s.extreme = !o.NoExtremes && rapid.IntRange(0, 59).Draw(t, "extremes") == 0
	if s.extreme && rapid.IntRange(0, 2).Draw(t, "manyfields") == 0 {
		// total number of fields of a segment holding all of them (incl. _id)
		target := rapid.SampledFrom([]int{63, 64, 65, 66, 127, 128, 129, 130, 257}).Draw(t, "nmany")
		have := map[string]bool{model.IDField: true}
		for _, f := range s.fields {
			have[f] = true
		}
		n := target - len(have)
		for i := 0; i < n; i++ {
			name := fmt.Sprintf("m%03d", i)
			s.fields = append(s.fields, name)
			if i%3 == 0 {
				s.dv[name] = true
			}
		}
	}
	nt := rapid.IntRange(2, 9).Draw(t, "nterms")
	if o.FewTerms {
		nt = rapid.IntRange(1, 3).Draw(t, "nterms-few")
	}
	t0 := rapid.IntRange(0, len(vocab)-1).Draw(t, "term0")
	for i := 0; i < nt; i++ {
		s.terms = append(s.terms, vocab[(t0+i*3)%len(vocab)])
	}
	if s.extreme {
		s.terms = append(s.terms, rapid.SampledFrom(vocabExtreme).Draw(t, "xterm"))
	}
	s.locPct = rapid.SampledFrom([]int{0, 0, 30, 60, 100}).Draw(t, "locpct")
	if o.NoLocs {
		s.locPct = 0
	}
	return s
}

func (s *schema) dvList() []string {
	var out []string
	seen := map[string]bool{}
	for _, f := range append([]string{model.IDField}, s.fields...) {
		if s.dv[f] && !seen[f] {
			seen[f] = true
			out = append(out, f)
		}
	}
	return out
}

var valLens = []int{0, 0, 1, 2, 3, 5, 6, 7, 8, 9, 10, 11, 12, 13, 14, 20, 40}

func genValue(t *rapid.T, s *schema) model.Bytes {
	cls := rapid.IntRange(0, 99).Draw(t, "valcls")
	n := 0
	switch {
	case s.extreme && !s.noXXL && cls < 6:
		n = rapid.SampledFrom([]int{65535, 65536, 70000, 131072}).Draw(t, "vallenXXL")
	case cls < 90:
		n = rapid.SampledFrom(valLens).Draw(t, "vallen")
	case cls < 98:
		n = rapid.IntRange(41, 300).Draw(t, "vallenL")
	default:
		n = rapid.IntRange(301, 3000).Draw(t, "vallenXL")
	}
	seed := rapid.IntRange(0, 255).Draw(t, "valseed")
	b := make(model.Bytes, n)
	if n >= 64 && rapid.IntRange(0, 3).Draw(t, "noise") == 0 {
		// incompressible, deterministic content (xorshift)
		x := uint64(seed)*2654435761 + 88172645463325252
		for i := range b {
			x ^= x << 13
			x ^= x >> 7
			x ^= x << 17
			b[i] = byte(x >> 24)
		}
		return b
	}
	for i := range b {
		// mildly compressible, deterministic content
		b[i] = byte('a' + (seed+i*i/3)%23)
	}
	return b
}

func genLoc(t *rapid.T, s *schema) model.Loc {
	l := model.Loc{
		P: rapid.SampledFrom([]int{0, 1, 2, 3, 127, 128, 300, 20000}).Draw(t, "pos"),
		S: rapid.SampledFrom([]int{0, 1, 5, 127, 128, 16383, 16384, 70000}).Draw(t, "start"),
	}
	l.E = l.S + rapid.IntRange(0, 9).Draw(t, "len")
	if s.extreme && rapid.IntRange(0, 3).Draw(t, "xloc") == 0 {
		big := rapid.SampledFrom([]int{1<<31 - 1, 1 << 31, 1<<32 - 1, 1 << 32, 1<<40 + 7}).Draw(t, "bigval")
		switch rapid.IntRange(0, 2).Draw(t, "which") {
		case 0:
			l.P = big
		case 1:
			l.S, l.E = big, big+3
		default:
			l.E = l.S + big
		}
	}
	if rapid.IntRange(0, 3).Draw(t, "locfield") == 0 {
		l.F = rapid.SampledFrom(s.fields).Draw(t, "locname")
	}
	return l
}

func genField(t *rapid.T, s *schema) model.Field {
	f := model.Field{Name: rapid.SampledFrom(s.fields).Draw(t, "fname")}
	if f.Name == "so" {
		f.Store = true
		f.Val = genValue(t, s)
		return f
	}
	nterms := rapid.IntRange(0, 4).Draw(t, "nfterms")
	for i := 0; i < nterms; i++ {
		term := rapid.SampledFrom(s.terms).Draw(t, "term")
		if s.noXXL && len(term) > 2000 {
			term = "xl" // kilobyte terms only in explicit documents, not in blocks of thousands
		}
		if s.dv[f.Name] && strings.Contains(term, "\xff") {
			term = "nff"
		}
		mt := model.Term{T: model.Bytes(term)}
		if s.locPct > 0 && rapid.IntRange(0, 99).Draw(t, "haslocs") < s.locPct {
			nl := rapid.IntRange(1, 3).Draw(t, "nlocs")
			for j := 0; j < nl; j++ {
				mt.L = append(mt.L, genLoc(t, s))
			}
		}
		mt.N = len(mt.L) + rapid.SampledFrom([]int{0, 0, 0, 1, 2, 200}).Draw(t, "xfreq")
		if s.extreme && rapid.IntRange(0, 5).Draw(t, "xxfreq") == 0 {
			big := rapid.SampledFrom([]int{16383, 16384, 70000, 1<<31 - 1, 1 << 31, 1<<32 + 1}).Draw(t, "bigfreq")
			if len(mt.L) > 0 && big > 70000 {
				// ice sizes its location slices by the frequency; a 2^31
				// frequency WITH locations is a multi-gigabyte allocation, not a
				// realistic input (recorded as out of scope in DESIGN.md §7.4)
				big = 70000
			}
			mt.N = len(mt.L) + big
		}
		if mt.N == 0 {
			mt.N = 1
		}
		f.Terms = append(f.Terms, mt)
	}
	if rapid.IntRange(0, 2).Draw(t, "store") == 0 {
		f.Store = true
		f.Val = genValue(t, s)
	}
	if s.mixedDV && s.dv[f.Name] && rapid.IntRange(0, 2).Draw(t, "nodv") == 0 {
		f.NoDV = true
	}
	return f
}

func genDoc(t *rapid.T, s *schema) model.Doc {
	nf := rapid.IntRange(0, 4).Draw(t, "ndocfields")
	d := model.Doc{}
	if len(s.fields) > 20 && rapid.IntRange(0, 3).Draw(t, "widedoc") == 0 {
		// one instance of every field: the segment then has exactly as many
		// fields as the schema
		for i, name := range s.fields {
			f := model.Field{Name: name, Terms: []model.Term{{T: model.Bytes(s.terms[i%len(s.terms)]), N: 1}}}
			if name == "so" {
				f.Terms = nil
			}
			if s.dv[name] && strings.Contains(string(f.Terms0()), "\xff") {
				f.Terms = []model.Term{{T: model.Bytes("nff"), N: 1}}
			}
			if i%2 == 0 || i == len(s.fields)-1 {
				f.Store = true
				f.Val = model.Bytes(fmt.Sprintf("wide-%d", i))
			}
			d.Fields = append(d.Fields, f)
		}
		return d
	}
	if len(s.fields) > 20 && rapid.IntRange(0, 1).Draw(t, "edgefields") == 0 {
		// worlds with very many fields: exercise the highest field ids
		for _, name := range []string{s.fields[len(s.fields)-1], s.fields[len(s.fields)-2]} {
			f := model.Field{Name: name, Terms: []model.Term{{T: model.Bytes("edge"), N: 1}}, Store: true, Val: genValue(t, s)}
			d.Fields = append(d.Fields, f)
		}
	}
	for i := 0; i < nf; i++ {
		d.Fields = append(d.Fields, genField(t, s))
	}
	return d
}

func genBatch(t *rapid.T, s *schema, o *WorldOpts) []Item {
	cls := rapid.IntRange(0, 99).Draw(t, "sizecls")
	var items []Item
	explicit := func(min, max int, label string) {
		n := rapid.IntRange(min, max).Draw(t, label)
		for i := 0; i < n; i++ {
			d := genDoc(t, s)
			items = append(items, Item{Doc: &d})
		}
	}
	if cls >= o.BigPct || len(s.fields) > 20 {
		if rapid.IntRange(0, 4).Draw(t, "small") == 0 {
			explicit(7, 40, "nsmall")
		} else {
			explicit(0, o.MaxTinyDocs, "ntiny")
		}
		return items
	}
	if !o.NoExtremes && rapid.IntRange(0, 29).Draw(t, "fatblock") == 0 {
		// a "fat" stored block: ~100 documents whose stored values add up to more
		// than 8 MiB before compression (they compress to almost nothing, so the
		// segment stays small); one 128-document block holds them
		val := make(model.Bytes, 90<<10+rapid.IntRange(0, 30<<10).Draw(t, "fatlen"))
		for i := range val {
			val[i] = "stored-value-"[i%13]
		}
		d := genDoc(t, s)
		d.Fields = append(d.Fields, model.Field{Name: s.fields[0], Store: true, Val: val})
		items = append(items, Item{Rep: &Rep{N: rapid.IntRange(90, 127).Draw(t, "fatn"), Tmpl: []model.Doc{d}}})
		explicit(0, 2, "ntail")
		return items
	}
	explicit(0, 3, "nhead")
	var n int
	if rapid.IntRange(0, 99).Draw(t, "huge") < o.HugePct {
		n = rapid.SampledFrom([]int{1019, 1023, 1024, 1024, 1024, 1025, 1030, 1100, 2047, 2048, 2048, 2049, 2100}).Draw(t, "nhuge")
	} else {
		n = rapid.SampledFrom([]int{120, 125, 126, 127, 128, 129, 130, 140, 250, 254, 255, 256, 257, 262}).Draw(t, "nblock")
	}
	nt := rapid.IntRange(1, 4).Draw(t, "ntmpl")
	s.noXXL = true
	defer func() { s.noXXL = false }()
	rep := &Rep{N: n}
	for i := 0; i < nt; i++ {
		rep.Tmpl = append(rep.Tmpl, genDoc(t, s))
	}
	items = append(items, Item{Rep: rep})
	if rapid.IntRange(0, 2).Draw(t, "tworeps") == 0 {
		// a second block of differently shaped documents, so that consecutive
		// chunks / blocks of the segment differ in size and content
		rep2 := &Rep{N: rapid.SampledFrom([]int{5, 100, 127, 129, 900, 1024, 1030, 2048}).Draw(t, "n2")}
		nt2 := rapid.IntRange(1, 3).Draw(t, "ntmpl2")
		// often the second block lacks one field entirely: whole chunks
		// without doc values / postings of that field ("holes")
		hole := ""
		if rapid.IntRange(0, 1).Draw(t, "hole") == 0 {
			hole = rapid.SampledFrom(s.fields).Draw(t, "holefield")
		}
		for i := 0; i < nt2; i++ {
			d := genDoc(t, s)
			if hole != "" {
				kept := d.Fields[:0]
				for _, f := range d.Fields {
					if f.Name != hole {
						kept = append(kept, f)
					}
				}
				d.Fields = kept
			}
			rep2.Tmpl = append(rep2.Tmpl, d)
		}
		items = append(items, Item{Rep: rep2})
		if rapid.IntRange(0, 1).Draw(t, "threereps") == 0 {
			// ... and the first kind of document again after the hole
			items = append(items, Item{Rep: &Rep{N: rapid.SampledFrom([]int{3, 60, 1024}).Draw(t, "n3"), Tmpl: rep.Tmpl}})
		}
	}
	explicit(0, 3, "ntail")
	return items
}

func genDrop(t *rapid.T) Drop {
	switch rapid.IntRange(0, 9).Draw(t, "dropkind") {
	case 0, 1, 2:
		return Drop{Nil: true}
	case 3:
		return Drop{}
	case 4:
		return Drop{All: true}
	case 5:
		return Drop{Keep: rapid.SampledFrom([]int{1024, 1024, 1024, 2048, 1023, 1025, 128, 256}).Draw(t, "keep")}
	default:
		n := rapid.IntRange(1, 6).Draw(t, "ndrops")
		d := Drop{}
		for i := 0; i < n; i++ {
			d.Docs = append(d.Docs, uint32(rapid.IntRange(0, 3000).Draw(t, "dropdoc")))
		}
		return d
	}
}

func genMergeDef(t *rapid.T, idx int) *MergeDef {
	md := &MergeDef{}
	nin := rapid.IntRange(1, 4).Draw(t, "nin")
	if rapid.IntRange(0, 39).Draw(t, "zeroinputs") == 0 {
		nin = 0 // a merge over no segments at all writes an empty segment
	}
	for i := 0; i < nin; i++ {
		md.In = append(md.In, rapid.IntRange(0, idx-1).Draw(t, "in"))
		md.Drops = append(md.Drops, genDrop(t))
	}
	md.Public = rapid.IntRange(0, 2).Draw(t, "public") == 0
	md.Buf = rapid.SampledFrom([]int{0, 1, 2, 7, 64, 4096}).Draw(t, "buf")
	return md
}

// GenWorld draws a world definition.
func GenWorld(t *rapid.T, o WorldOpts) *WorldDef {
	o.defaults()
	s := genSchema(t, &o)
	return genWorldWith(t, s, &o)
}

func genWorldWith(t *rapid.T, s *schema, o *WorldOpts) *WorldDef {
	wd := &WorldDef{DV: s.dvList()}
	nb := rapid.IntRange(o.MinBuilds, o.MaxBuilds).Draw(t, "nbuilds")
	for i := 0; i < nb; i++ {
		sd := SegDef{
			Batch: genBatch(t, s, o),
			Norm:  rapid.IntRange(0, model.NormKinds-1).Draw(t, "norm"),
			Mode:  rapid.SampledFrom(chunkModes).Draw(t, "mode"),
			Store: rapid.SampledFrom(o.Stores).Draw(t, "store"),
		}
		noidPct := o.NoIDPct
		if noidPct == 0 {
			noidPct = 5
		}
		if o.AllowNoID && rapid.IntRange(0, 99).Draw(t, "noid") < noidPct {
			sd.NoID = true
		}
		wd.Segs = append(wd.Segs, sd)
	}
	nm := 0
	if o.MaxMerges > 0 {
		nm = rapid.IntRange(0, o.MaxMerges).Draw(t, "nmerges")
	}
	for i := 0; i < nm; i++ {
		idx := len(wd.Segs)
		sd := SegDef{
			Merge: genMergeDef(t, idx),
			Mode:  rapid.SampledFrom(chunkModes).Draw(t, "mmode"),
			Store: rapid.SampledFrom([]string{StoreMem, StoreFile}).Draw(t, "mstore"),
		}
		wd.Segs = append(wd.Segs, sd)
	}
	return wd
}

// genSchedule draws a schedule (see Sched.pick for the encoding): switches
// separated by gaps from a heavy-tailed distribution, so that they land early
// and deep inside long operations alike.
func genSchedule(t *rapid.T, maxLen int) []int {
	n := rapid.IntRange(0, maxLen).Draw(t, "schedlen")
	out := make([]int, n)
	for i := range out {
		gap := rapid.SampledFrom([]int{0, 0, 0, 1, 1, 2, 3, 5, 8, 13, 30, 100, 400, 2000}).Draw(t, "gap")
		to := rapid.IntRange(0, 4).Draw(t, "to")
		out[i] = gap*5 + to
	}
	return out
}
