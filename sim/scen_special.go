package sim

import (
	"fmt"
	"runtime"

	"pgregory.net/rapid"

	"icesim/model"
)

// Two special size classes that random generation does not reach:
//
// "giant": segments of 16 384+ or 65 536+ documents (doc-value chunk headers
// with deltas >= 16384, more than 65536 postings in one field of one merge,
// 16-bit boundaries in general), built, merged and checked against the model
// with the oracle of the property under check.
//
// "aligned": a segment whose data section (or whole file) is grown, by
// searching over the length of one incompressible stored value, until its
// length is an exact multiple of 64 KiB or 1 MiB - block-wise copy loops and
// buffer boundaries only misbehave at such sizes.

type SpecialCase struct {
	N       int  `json:"n,omitempty"`       // giant: number of documents of the big build
	Deleted int  `json:"deleted,omitempty"` // giant: every Deleted-th document is dropped in the merge (0: none)
	Align   int  `json:"align,omitempty"`   // aligned: the multiple to hit
	Whole   bool `json:"whole,omitempty"`   // aligned: align the whole file instead of the data section
	Store   int  `json:"store,omitempty"`
}

func init() {
	register(&Scenario{
		Name: "giant",
		Rule: "every case is non-trivial: one build of 16 384-66 100 small documents plus a small second build, merged (with and without deletions); distinct = distinct case JSON",
		Gen: func(t *rapid.T, prop string) *Case {
			sc := &SpecialCase{
				// rapid favours the front of the list: the 16-bit boundary sizes come first
				N:       rapid.SampledFrom([]int{66100, 65536, 65537, 65535, 16385, 16384, 17000}).Draw(t, "n"),
				Deleted: rapid.SampledFrom([]int{0, 0, 7, 1000}).Draw(t, "deleted"),
				Store:   rapid.IntRange(0, 2).Draw(t, "store"),
			}
			return &Case{Special: sc}
		},
		Run: runGiantCase,
	})
	register(&Scenario{
		Name: "aligned",
		Rule: "every case is non-trivial: the data section or the file of a one-document segment is made an exact multiple of 64 KiB / 1 MiB / 2 MiB; distinct = distinct case JSON",
		Gen: func(t *rapid.T, prop string) *Case {
			return &Case{Special: &SpecialCase{
				Align: rapid.SampledFrom([]int{1 << 16, 1 << 20, 1 << 20, 2 << 20}).Draw(t, "align"),
				Whole: rapid.IntRange(0, 2).Draw(t, "whole") == 0,
				Store: rapid.IntRange(0, 2).Draw(t, "store"),
			}}
		},
		Run: runAlignedCase,
	})
}

var storeNames = []string{StoreBuilt, StoreMem, StoreFile}

func giantWorld(sc *SpecialCase) *WorldDef {
	// small documents: _id (injected), a doc-value keyword, a shared term
	// field "a": one term carried by every document (a completely full 65 536-
	// document bitmap container once the segment is large enough)
	all := model.Field{Name: "a", Terms: []model.Term{{T: model.Bytes("all"), N: 1}}}
	tmpl := []model.Doc{
		{Fields: []model.Field{{Name: "k", Terms: []model.Term{{T: model.Bytes("x"), N: 1}}}, {Name: "t", Terms: []model.Term{{T: model.Bytes("common"), N: 2}}, Store: true, Val: model.Bytes("v")}, all}},
		{Fields: []model.Field{all, {Name: "k", Terms: []model.Term{{T: model.Bytes("y"), N: 1}}}}},
		{Fields: []model.Field{{Name: "t", Terms: []model.Term{{T: model.Bytes("common"), N: 1}, {T: model.Bytes("rare"), N: 1}}}, all}},
	}
	wd := &WorldDef{DV: []string{"k", model.IDField}}
	wd.Segs = append(wd.Segs, SegDef{Batch: []Item{{Rep: &Rep{N: sc.N, Tmpl: tmpl}}}, Mode: 1025, Store: storeNames[sc.Store%3]})
	wd.Segs = append(wd.Segs, SegDef{Batch: []Item{{Rep: &Rep{N: 600, Tmpl: tmpl[:2]}}}, Mode: 1025, Store: StoreMem})
	var drops []uint32
	if sc.Deleted > 0 {
		for d := 0; d < sc.N; d += sc.Deleted {
			drops = append(drops, uint32(d))
		}
	}
	wd.Segs = append(wd.Segs, SegDef{Merge: &MergeDef{In: []int{0, 1}, Drops: []Drop{{Docs: drops, Nil: len(drops) == 0}, {Nil: true}}, Public: true, Buf: 4096}, Mode: 1025, Store: StoreMem})
	return wd
}

func runGiantCase(c *Case, env *Env) *Result {
	res := &Result{SubRuns: 1, NonTrivial: true}
	sched := NewSched(nil)
	defer res.absorb(sched)
	// ice's builder reserves (bytes per document of the pooled builder's previous
	// build) x (documents of this batch): empty the pool first, so that a
	// 66 000-document batch does not inherit the estimate of an earlier case with
	// megabyte-sized documents (sync.Pool drops its contents after two GC cycles)
	runtime.GC()
	runtime.GC()
	w, fail := BuildWorldFor(env.Prop, giantWorld(c.Special), sched)
	if fail != nil {
		res.Fail = fail
		return res
	}
	res.Shape = worldShape(w)
	res.probe(fmt.Sprintf("giant-%d-docs", c.Special.N))
	for _, ws := range w.Segs {
		if ws.Idx == 1 {
			continue
		}
		var f *Fail
		switch env.Prop {
		case "C01":
			if ws.Kind == model.Built {
				f = checkModel("C01", ws, ws.Seg, "giant build", false)
			}
		case "C02":
			if ws.Kind == model.Merged {
				f = checkModel("C02", ws, ws.Seg, "giant merge", false)
			}
		case "C03":
			f = checkDocNums(ws)
		case "C07":
			// doc values only (the cheap part of the observation)
			got, ff := Observe("C07", ws.Seg, ObsOpts{SkipDicts: true, SkipStored: true, SkipStats: true})
			if ff != nil {
				f = ff
			} else if d := diffFVsExported(got.DV, ws.Exp().DV); d != "" {
				f = mismatch("C07", "docvalues", "values", fmt.Sprintf("giant seg %d (%d docs): %s", ws.Idx, len(ws.Docs), d))
			}
		case "C08":
			// dictionaries with their entry counts (postings are C01/C02's business)
			got, ff := Observe("C08", ws.Seg, ObsOpts{SkipStored: true, SkipDV: true, SkipStats: true})
			if ff != nil {
				f = ff
			} else if d := model.Diff(got, ws.Exp(), "stats", "stored", "dv"); d != "" {
				f = mismatch("C08", "dictionary", "giant", fmt.Sprintf("giant seg %d (%d docs): %s", ws.Idx, len(ws.Docs), d))
			}
		case "C16":
			f = checkStats(ws, ws.Seg, "giant")
		default:
			panic(&HarnessPanic{Msg: "scenario giant has no oracle for " + env.Prop})
		}
		if f != nil {
			res.Fail = f
			return res
		}
	}
	return res
}

func diffFVsExported(g, w [][]model.FV) string {
	if len(g) != len(w) {
		return fmt.Sprintf("got %d docs want %d", len(g), len(w))
	}
	for d := range g {
		if s := model.DiffFV(g[d], w[d]); s != "" {
			return fmt.Sprintf("doc %d: %s", d, s)
		}
	}
	return ""
}

// noiseValue: n incompressible deterministic bytes.
func noiseValue(n int) model.Bytes {
	b := make(model.Bytes, n)
	x := uint64(88172645463325252)
	for i := range b {
		x ^= x << 13
		x ^= x >> 7
		x ^= x << 17
		b[i] = byte(x >> 24)
	}
	return b
}

func runAlignedCase(c *Case, env *Env) *Result {
	res := &Result{NonTrivial: true}
	sched := NewSched(nil)
	defer res.absorb(sched)
	sc := c.Special
	mk := func(valLen int) *WorldDef {
		doc := model.Doc{Fields: []model.Field{{Name: "blob", Store: true, Val: noiseValue(valLen)}, {Name: "t", Terms: []model.Term{{T: model.Bytes("x"), N: 1}}}}}
		return &WorldDef{Segs: []SegDef{{Batch: []Item{{Doc: &doc}}, Mode: 1025, Store: storeNames[sc.Store%3]}}}
	}
	size := func(w *World) int {
		n := len(w.Segs[0].Bytes)
		if !sc.Whole {
			n -= footerSize
		}
		return n
	}
	// search: the length grows by one byte per byte of incompressible value,
	// except where a length prefix or a compression frame header changes width
	valLen := sc.Align - 600
	var w *World
	for iter := 0; iter < 24; iter++ {
		var fail *Fail
		w, fail = BuildWorldFor(env.Prop, mk(valLen), sched)
		res.SubRuns++
		if fail != nil {
			res.Fail = fail
			return res
		}
		rem := size(w) % sc.Align
		if rem == 0 {
			break
		}
		valLen += sc.Align - rem
		if valLen > sc.Align+sc.Align/2 {
			valLen -= sc.Align
		}
		w = nil
	}
	if w == nil {
		res.probe("alignment-not-reached")
		res.NonTrivial = false
		return res
	}
	res.probe(fmt.Sprintf("aligned-to-%d", sc.Align))
	res.Shape = worldShape(w)
	ws := w.Segs[0]
	var f *Fail
	switch env.Prop {
	case "C04":
		f = checkRoundtrip(ws, sched, res)
	case "C11":
		f = checkFooterAll(ws, sched, res)
	case "C06":
		f = checkModel("C06", ws, ws.Seg, "aligned", false)
	default:
		panic(&HarnessPanic{Msg: "scenario aligned has no oracle for " + env.Prop})
	}
	res.Fail = f
	return res
}
