package sim

import (
	"bytes"
	"fmt"

	"github.com/RoaringBitmap/roaring"
	segment "github.com/blugelabs/bluge_segment_api"
	"pgregory.net/rapid"

	"icesim/model"
)

// Scenario "immutability" (C15): snapshot every segment and every caller
// bitmap, run a history of reads / persists / merges (results of merges join
// the pool and take part in later operations), then compare with the snapshot.

type HistOp struct {
	Kind  int      `json:"kind"` // 0 observe, 1 postings walk with exclusion, 2 persist, 3 merge, 4 DocsMatchingTerms, 5 stored, 6 doc values, 7 CollectionStats().Merge(other)
	Seg   int      `json:"seg"`
	Field int      `json:"field,omitempty"`
	Term  int      `json:"term,omitempty"`
	Docs  []uint32 `json:"docs,omitempty"` // exclusion / drop docs
	RunOp bool     `json:"runs,omitempty"` // shape the bitmap as a run (RunOptimize changes serialisation, not the set)
	In    []int    `json:"in,omitempty"`   // merge inputs
	Mode  uint32   `json:"mode,omitempty"`
	Pub   bool     `json:"pub,omitempty"`
	Doc   int      `json:"doc,omitempty"`
}

type HistCase struct {
	Ops []HistOp `json:"ops"`
}

func init() {
	register(&Scenario{
		Name: "immutability",
		Rule: "non-trivial = the history contains a merge or a read with a non-empty caller bitmap, over segments with >=1 document; distinct = distinct case JSON",
		Gen:  genHistCase,
		Run:  runHistCase,
	})
}

func genHistCase(t *rapid.T, prop string) *Case {
	o := WorldOpts{MinBuilds: 1, MaxBuilds: 3, MaxMerges: 1, BigPct: 3, HugePct: 30, MaxTinyDocs: 8, MoreDV: true}
	wd := GenWorld(t, o)
	hc := &HistCase{}
	n := rapid.IntRange(1, 25).Draw(t, "nops")
	for i := 0; i < n; i++ {
		op := HistOp{Kind: rapid.SampledFrom([]int{0, 1, 1, 2, 3, 3, 3, 4, 5, 6, 7}).Draw(t, "kind"), Seg: rapid.IntRange(0, 7).Draw(t, "seg")}
		if op.Kind == 7 {
			op.Field = rapid.IntRange(0, 7).Draw(t, "field")
			op.In = []int{rapid.IntRange(0, 7).Draw(t, "other")}
		}
		switch op.Kind {
		case 1, 4:
			op.Field = rapid.IntRange(0, 7).Draw(t, "field")
			op.Term = rapid.IntRange(0, 12).Draw(t, "term")
		case 3:
			k := rapid.IntRange(1, 3).Draw(t, "nin")
			for j := 0; j < k; j++ {
				op.In = append(op.In, rapid.IntRange(0, 7).Draw(t, "in"))
			}
			op.Mode = rapid.SampledFrom(chunkModes).Draw(t, "mode")
			op.Pub = rapid.IntRange(0, 1).Draw(t, "pub") == 0
		case 5, 6:
			op.Doc = rapid.IntRange(0, 2200).Draw(t, "doc")
			op.Field = rapid.IntRange(0, 7).Draw(t, "field")
			op.Term = rapid.IntRange(0, 3).Draw(t, "term")
		}
		if op.Kind == 1 || op.Kind == 3 {
			k := rapid.IntRange(0, 6).Draw(t, "ndocs")
			for j := 0; j < k; j++ {
				op.Docs = append(op.Docs, uint32(rapid.IntRange(0, 2200).Draw(t, "doc")))
			}
			op.RunOp = rapid.IntRange(0, 2).Draw(t, "runs") == 0
		}
		hc.Ops = append(hc.Ops, op)
	}
	return &Case{World: wd, Hist: hc}
}

// footerAccessors are the header/footer observations *ice.Segment offers
// beyond the segment API.
type footerAccessors interface {
	CRC() uint32
	Version() uint32
	ChunkMode() uint32
	NumDocs() uint64
	FieldsIndexOffset() uint64
	StoredIndexOffset() uint64
	DocValueOffset() uint64
	Size() int
	Type() string
}

func footerSnapshot(seg segment.Segment) string {
	fa, ok := seg.(footerAccessors)
	if !ok {
		return ""
	}
	return fmt.Sprintf("CRC=%#08x Version=%d ChunkMode=%d NumDocs=%d FieldsIndexOffset=%d StoredIndexOffset=%d DocValueOffset=%d Size=%d Type=%s",
		fa.CRC(), fa.Version(), fa.ChunkMode(), fa.NumDocs(), fa.FieldsIndexOffset(), fa.StoredIndexOffset(), fa.DocValueOffset(), fa.Size(), fa.Type())
}

type immSeg struct {
	footer string
	seg    segment.Segment
	obs    *model.Obs
	bytes  []byte
	mem    []byte // backing slice of a mem-loaded view (nil otherwise)
	fields []string
	exp    *model.Obs // nil for merge results created during the history
	name   string
}

type immBitmap struct {
	bm    *roaring.Bitmap
	clone *roaring.Bitmap
	ser   []byte
	name  string
}

func runHistCase(c *Case, env *Env) *Result {
	res := &Result{SubRuns: 1}
	sched := NewSched(nil)
	defer res.absorb(sched)
	w, fail := BuildWorldFor(env.Prop, c.World, sched)
	if fail != nil {
		res.Fail = fail
		return res
	}
	res.Shape = worldShape(w)

	var pool []*immSeg
	snapshot := func(seg segment.Segment, mem []byte, name string) (*immSeg, *Fail) {
		fs := footerSnapshot(seg)
		o, f := Observe("C15", seg, ObsOpts{})
		if f != nil {
			return nil, f
		}
		b, _, pi, err := Persist(seg, sched)
		if pi != nil || err != nil {
			return nil, apiFail("C04", "world", "WriteTo", pi, err)
		}
		// taken before the first WriteTo: persisting must not change it either
		return &immSeg{seg: seg, obs: o, bytes: b, mem: mem, fields: o.Fields, name: name, footer: fs}, nil
	}
	for _, ws := range w.Segs {
		is, f := snapshot(ws.Seg, ws.Mem, fmt.Sprintf("world seg %d (%s)", ws.Idx, ws.Def.Store))
		if f != nil {
			res.Fail = f
			return res
		}
		is.exp = ws.Exp()
		pool = append(pool, is)
	}
	var bitmaps []*immBitmap
	mkBitmap := func(docs []uint32, n int, runs bool, name string) *roaring.Bitmap {
		bm := roaring.New()
		if n > 0 {
			for _, d := range docs {
				bm.Add(d % uint32(n))
				if runs {
					// a short run starting at d: RunOptimize would re-encode it
					for k := uint32(1); k < 6; k++ {
						bm.Add((d + k) % uint32(n))
					}
				}
			}
		}
		ser, _ := bm.ToBytes()
		bitmaps = append(bitmaps, &immBitmap{bm: bm, clone: bm.Clone(), ser: ser, name: name})
		return bm
	}

	for oi, op := range c.Hist.Ops {
		is := pool[op.Seg%len(pool)]
		cnt := int(is.obs.Count)
		var f *Fail
		pi := Guard(func() {
			switch op.Kind {
			case 0:
				_, f = Observe("C15", is.seg, ObsOpts{Reuse: true})
			case 1:
				field := is.fields[op.Field%len(is.fields)]
				terms := is.obs.Dicts[field]
				term := []byte("absent")
				if len(terms) > 0 {
					term = terms[op.Term%len(terms)].Term
				}
				ex := mkBitmap(op.Docs, cnt, op.RunOp, fmt.Sprintf("op #%d exclusion bitmap", oi))
				if !ex.IsEmpty() && cnt > 0 {
					res.NonTrivial = true
					res.probe("read-with-exclusion")
				}
				dict, err := is.seg.Dictionary(field)
				if err != nil {
					f = apiFail("C15", "immutability", "Dictionary", nil, err)
					return
				}
				_, _, _, f = ReadPostings("C15", dict, term, ex, nil, nil)
			case 2:
				_, _, pi, err := Persist(is.seg, sched)
				if pi != nil || err != nil {
					f = apiFail("C15", "immutability", "WriteTo", pi, err)
				}
				res.probe("persist")
			case 3:
				var segs []segment.Segment
				var drops []*roaring.Bitmap
				for k, in := range op.In {
					x := pool[in%len(pool)]
					segs = append(segs, x.seg)
					if k == 0 || len(op.Docs) > 0 {
						drops = append(drops, mkBitmap(op.Docs, int(x.obs.Count), op.RunOp, fmt.Sprintf("op #%d drops[%d]", oi, k)))
					} else {
						drops = append(drops, nil)
					}
				}
				wr := NewSimWriter(sched)
				_, _, pi, err := RunMerge(&MergeDef{Public: op.Pub, Buf: 64}, op.Mode, segs, drops, wr, nil)
				if pi != nil || err != nil {
					f = apiFail("C02", "world", "merge", pi, err)
					return
				}
				res.probe("merge")
				res.NonTrivial = true
				store := StoreMem
				if oi%2 == 1 {
					store = StoreFile
				}
				seg, mem, _, pi, err := LoadView(wr.Buf, store, sched)
				if pi != nil || err != nil {
					f = apiFail("C04", "world", "Load(merge output)", pi, err)
					return
				}
				var ns *immSeg
				ns, f = snapshot(seg, mem, fmt.Sprintf("result of merge op #%d", oi))
				if f == nil && len(pool) < 10 {
					pool = append(pool, ns)
					res.probe("merge-result-joins-pool")
				}
			case 4:
				field := is.fields[op.Field%len(is.fields)]
				terms := is.obs.Dicts[field]
				var ts []segment.Term
				if len(terms) > 0 {
					ts = append(ts, simTermRef{f: field, t: terms[op.Term%len(terms)].Term})
				}
				ts = append(ts, simTermRef{f: model.UnknownField, t: []byte("x")})
				if _, err := is.seg.DocsMatchingTerms(ts); err != nil {
					f = apiFail("C15", "immutability", "DocsMatchingTerms", nil, err)
				}
			case 7:
				// what an index reader does when aggregating: merge another
				// segment's statistics into the value this segment handed out
				field := is.fields[op.Field%len(is.fields)]
				other := pool[op.In[0]%len(pool)]
				a, err := is.seg.CollectionStats(field)
				if err != nil {
					f = apiFail("C15", "immutability", "CollectionStats", nil, err)
					return
				}
				b, err := other.seg.CollectionStats(field)
				if err != nil {
					f = apiFail("C15", "immutability", "CollectionStats", nil, err)
					return
				}
				a.Merge(b)
				res.probe("stats-merged-into-returned-value")
			case 5:
				if cnt > 0 {
					_, f = VisitStored("C15", is.seg, uint64(op.Doc%cnt))
				}
			case 6:
				if cnt > 0 {
					// the field list another segment handed out, passed on as is
					req := is.fields
					if op.Term%2 == 1 {
						req = pool[op.Field%len(pool)].seg.Fields()
						res.probe("docvalue-reader-on-another-segments-Fields()")
					}
					dvr, err := is.seg.DocumentValueReader(req)
					if err != nil {
						f = apiFail("C15", "immutability", "DocumentValueReader", nil, err)
						return
					}
					if err := dvr.VisitDocumentValues(uint64(op.Doc%cnt), func(string, []byte) {}); err != nil {
						f = apiFail("C15", "immutability", "VisitDocumentValues", nil, err)
					}
				}
			}
		})
		if pi != nil {
			res.Fail = &Fail{Prop: "C15", Oracle: "immutability", Kind: "panic", Site: pi.Site, Detail: fmt.Sprintf("op #%d kind %d on %s panicked: %s", oi, op.Kind, is.name, pi.Msg)}
			return res
		}
		if f != nil {
			res.Fail = f
			return res
		}
	}

	// everything must be as it was
	for _, is := range pool {
		o, f := Observe("C15", is.seg, ObsOpts{})
		if f != nil {
			f.Detail = "after the history: " + f.Detail
			res.Fail = f
			return res
		}
		if d := model.Diff(o, is.obs); d != "" {
			res.Fail = mismatch("C15", "immutability", "observation:"+sectionOf(d), fmt.Sprintf("%s changed during a history of %d operations: %s", is.name, len(c.Hist.Ops), d))
			return res
		}
		if fs := footerSnapshot(is.seg); fs != is.footer {
			res.Fail = mismatch("C15", "immutability", "footer-accessors", fmt.Sprintf("%s: header accessors changed during the history: before {%s} after {%s}", is.name, is.footer, fs))
			return res
		}
		b, _, pi, err := Persist(is.seg, sched)
		if pi != nil || err != nil {
			res.Fail = apiFail("C15", "immutability", "WriteTo(after)", pi, err)
			return res
		}
		if !bytes.Equal(b, is.bytes) {
			res.Fail = mismatch("C15", "immutability", "persisted-bytes", fmt.Sprintf("%s persists differently after the history (first difference at offset %d of %d)", is.name, firstDiff(b, is.bytes), len(is.bytes)))
			return res
		}
		if is.mem != nil && !bytes.Equal(is.mem, is.bytes) {
			res.Fail = mismatch("C15", "immutability", "backing-bytes", fmt.Sprintf("the memory backing %s was written to (offset %d)", is.name, firstDiff(is.mem, is.bytes)))
			return res
		}
	}
	for _, b := range bitmaps {
		if !b.bm.Equals(b.clone) {
			res.Fail = mismatch("C15", "immutability", "bitmap-set", fmt.Sprintf("%s was modified: now %d entries, was %d", b.name, b.bm.GetCardinality(), b.clone.GetCardinality()))
			return res
		}
		ser, _ := b.bm.ToBytes()
		if !bytes.Equal(ser, b.ser) {
			res.Fail = mismatch("C15", "immutability", "bitmap-serialisation", fmt.Sprintf("%s was re-encoded in place (serialisation changed from %d to %d bytes)", b.name, len(b.ser), len(ser)))
			return res
		}
	}
	res.probeN("caller-bitmaps-checked", len(bitmaps))
	return res
}
