package sim

import (
	segment "github.com/blugelabs/bluge_segment_api"

	"icesim/model"
)

// Adapters presenting model documents to ice.New. Every iterator callback is
// a scheduling point (ice calls back into harness code here), which is how
// concurrent builders are interleaved.

type simDoc struct {
	d     *model.Doc
	dv    map[string]bool
	sched *Sched
}

func (d *simDoc) Analyze() {}

func (d *simDoc) EachField(vf segment.VisitField) {
	for i := range d.d.Fields {
		d.sched.Yield(evDocIter, uint64(i))
		vf(&simField{f: &d.d.Fields[i], dv: d.dv[d.d.Fields[i].Name] && !d.d.Fields[i].NoDV, sched: d.sched})
	}
}

type simField struct {
	f     *model.Field
	dv    bool
	sched *Sched
}

func (f *simField) Name() string         { return f.f.Name }
func (f *simField) Length() int          { return f.f.Length() }
func (f *simField) Value() []byte        { return f.f.Val }
func (f *simField) Index() bool          { return len(f.f.Terms) > 0 }
func (f *simField) Store() bool          { return f.f.Store }
func (f *simField) IndexDocValues() bool { return f.dv }

func (f *simField) EachTerm(vt segment.VisitTerm) {
	for i := range f.f.Terms {
		vt(&simTerm{t: &f.f.Terms[i]})
	}
}

type simTerm struct{ t *model.Term }

func (t *simTerm) Term() []byte   { return t.t.T }
func (t *simTerm) Frequency() int { return t.t.N }
func (t *simTerm) EachLocation(vl segment.VisitLocation) {
	for i := range t.t.L {
		vl(&simLoc{l: &t.t.L[i]})
	}
}

type simLoc struct{ l *model.Loc }

func (l *simLoc) Field() string { return l.l.F }
func (l *simLoc) Start() int    { return l.l.S }
func (l *simLoc) End() int      { return l.l.E }
func (l *simLoc) Pos() int      { return l.l.P }
func (l *simLoc) Size() int     { return 0 }

// ToSegmentDocs wraps model documents for ice.New.
func ToSegmentDocs(docs []model.Doc, dv map[string]bool, sched *Sched) []segment.Document {
	out := make([]segment.Document, len(docs))
	for i := range docs {
		out[i] = &simDoc{d: &docs[i], dv: dv, sched: sched}
	}
	return out
}

// simTermRef implements segment.Term for DocsMatchingTerms.
type simTermRef struct {
	f string
	t []byte
}

func (t simTermRef) Field() string { return t.f }
func (t simTermRef) Term() []byte  { return t.t }
