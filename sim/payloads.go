package sim

// Scenario payload stubs (replaced as scenarios are implemented).

type InteropCase struct{}
type LifeCase struct{}
