package sim

// Scenario payload stubs (replaced as scenarios are implemented).

type ConcCase struct{}
type BuildHCase struct{}
type InteropCase struct{}
type LifeCase struct{}
