package sim

// Scenario payload stubs (replaced as scenarios are implemented).
