package sim

// Scenario payload stubs (replaced as scenarios are implemented).

type ConcCase struct{}
type PFaultCase struct{}
type RFaultCase struct{}
type BuildHCase struct{}
type InteropCase struct{}
type LifeCase struct{}
