package sim

import (
	"fmt"

	"github.com/RoaringBitmap/roaring"
	segment "github.com/blugelabs/bluge_segment_api"
	"pgregory.net/rapid"

	"icesim/model"
)

// Scenario "nav" (C05): stateful conformance of a postings iterator under
// histories of Next/Advance with exclusions, flags and ReplaceActual.

type NavStep struct {
	Adv   bool `json:"adv,omitempty"`
	Delta int  `json:"delta,omitempty"` // Advance target = max(previous target, last returned+1) + Delta
}

type NavCase struct {
	Seg        int       `json:"seg"`
	Field      int       `json:"field"`
	Term       int       `json:"term"`
	Absent     bool      `json:"absent,omitempty"`
	ExceptKind int       `json:"except_kind"` // 0 nil, 1 empty, 2 listed docs, 3 everything, 4 chunk-first/last docs
	ExceptDocs []uint32  `json:"except_docs,omitempty"`
	Replace    bool      `json:"replace,omitempty"` // ReplaceActual(sub) before the first step
	Keep       []uint32  `json:"keep,omitempty"`    // positions (mod len) of actual postings kept in sub
	Flags      int       `json:"flags"`             // bit0 freq, bit1 norm, bit2 locs
	Steps      []NavStep `json:"steps"`
}

func init() {
	register(&Scenario{
		Name: "nav",
		Rule: "non-trivial = the history contains a step that skips at least one posting (an Advance jumping over postings, or excluded postings in between), or runs on a 1-hit or multi-chunk list; distinct = distinct case JSON",
		Gen:  genNavCase,
		Run:  runNavCase,
	})
}

func genNavCase(t *rapid.T, prop string) *Case {
	o := WorldOpts{MinBuilds: 1, MaxBuilds: 2, MaxMerges: 1, BigPct: 6, HugePct: 50, MaxTinyDocs: 14, FewTerms: true}
	if rapid.IntRange(0, 3).Draw(t, "swarm-nolocs") == 0 {
		o.NoLocs = true
	}
	wd := GenWorld(t, o)
	n := &NavCase{
		Seg:        rapid.IntRange(0, 7).Draw(t, "seg"),
		Field:      rapid.IntRange(0, 7).Draw(t, "field"),
		Term:       rapid.IntRange(0, 15).Draw(t, "term"),
		Absent:     rapid.IntRange(0, 19).Draw(t, "absent") == 0,
		ExceptKind: rapid.SampledFrom([]int{0, 0, 0, 1, 2, 2, 2, 2, 3, 4}).Draw(t, "exk"),
		Flags:      rapid.IntRange(0, 7).Draw(t, "flags"),
	}
	if n.ExceptKind == 2 {
		k := rapid.IntRange(1, 8).Draw(t, "nex")
		for i := 0; i < k; i++ {
			n.ExceptDocs = append(n.ExceptDocs, uint32(rapid.IntRange(0, 2200).Draw(t, "exdoc")))
		}
	}
	if rapid.IntRange(0, 5).Draw(t, "replace") == 0 {
		n.Replace = true
		k := rapid.IntRange(0, 6).Draw(t, "nkeep")
		for i := 0; i < k; i++ {
			n.Keep = append(n.Keep, uint32(rapid.IntRange(0, 2200).Draw(t, "keep")))
		}
	}
	ns := rapid.IntRange(1, 30).Draw(t, "nsteps")
	for i := 0; i < ns; i++ {
		st := NavStep{Adv: rapid.IntRange(0, 1).Draw(t, "adv") == 1}
		if st.Adv {
			st.Delta = rapid.SampledFrom([]int{0, 0, 1, 1, 2, 3, 5, 9, 40, 300, 1100}).Draw(t, "delta")
		}
		n.Steps = append(n.Steps, st)
	}
	return &Case{World: wd, Nav: n}
}

// chunkSizeFor mirrors ice's chunking only for probe accounting (never for a verdict).
func chunkSizeFor(mode uint32, card, numDocs int) int {
	if mode <= 1024 {
		return int(mode)
	}
	if numDocs == 0 {
		return 1
	}
	cs := numDocs / (card/1024 + 1)
	if cs == 0 {
		cs = 1
	}
	return cs
}

func runNavCase(c *Case, env *Env) *Result {
	res := &Result{SubRuns: 1}
	sched := NewSched(nil)
	defer res.absorb(sched)
	w, fail := BuildWorldFor(env.Prop, c.World, sched)
	if fail != nil {
		res.Fail = fail
		return res
	}
	res.Shape = worldShape(w)
	n := c.Nav
	ws := w.Segs[n.Seg%len(w.Segs)]
	field := ws.Fields[n.Field%len(ws.Fields)]
	terms := ws.Exp().Dicts[field]
	var term []byte
	var list []model.PostObs
	if n.Absent || len(terms) == 0 {
		term = []byte("no-such-term")
	} else {
		to := terms[n.Term%len(terms)]
		term, list = to.Term, to.Posts
	}
	mode := MergeMode(ws.Def)
	if ws.Kind == model.Built {
		mode = ws.Def.Mode
	}
	cs := chunkSizeFor(mode, len(list), len(ws.Docs))

	// exclusion set
	var except *roaring.Bitmap
	excluded := map[uint64]bool{}
	nd := len(ws.Docs)
	switch n.ExceptKind {
	case 1:
		except = roaring.New()
	case 2:
		except = roaring.New()
		if nd > 0 {
			for _, d := range n.ExceptDocs {
				except.Add(d % uint32(nd))
				excluded[uint64(d%uint32(nd))] = true
			}
		}
	case 3:
		except = roaring.New()
		if nd > 0 {
			except.AddRange(0, uint64(nd))
			for d := 0; d < nd; d++ {
				excluded[uint64(d)] = true
			}
		}
	case 4:
		except = roaring.New()
		for d := 0; d < nd; d++ {
			if d%cs == 0 || d%cs == cs-1 {
				// only every other boundary so that something survives
				if (d/cs)%2 == 0 {
					except.Add(uint32(d))
					excluded[uint64(d)] = true
				}
			}
		}
	}
	var actual []model.PostObs
	for _, p := range list {
		if !excluded[p.Doc] {
			actual = append(actual, p)
		}
	}
	wantCount := uint64(len(actual))

	wantFreq, wantNorm, wantLocs := n.Flags&1 != 0, n.Flags&2 != 0, n.Flags&4 != 0
	var f *Fail
	vio := func(site, format string, a ...interface{}) {
		if f == nil {
			f = mismatch("C05", "nav", site, fmt.Sprintf("seg %d field %q term %q (list of %d, %d excluded, chunk %d): ", ws.Idx, field, string(term), len(list), len(list)-len(actual), cs)+fmt.Sprintf(format, a...))
		}
	}
	if len(list) > 0 && ws.Kind == model.Merged && len(list) == 1 && list[0].Freq == 1 && len(list[0].Locs) == 0 {
		res.probe("1-hit-list")
		res.NonTrivial = true
	}
	if len(list) > 1 && int(list[len(list)-1].Doc)/cs != int(list[0].Doc)/cs {
		res.probe("multi-chunk-list")
		res.NonTrivial = true
	}

	pi := Guard(func() {
		dict, err := ws.Seg.Dictionary(field)
		if err != nil {
			f = apiFail("C05", "nav", "Dictionary", nil, err)
			return
		}
		pl, err := dict.PostingsList(term, except, nil)
		if err != nil {
			f = apiFail("C05", "nav", "PostingsList", nil, err)
			return
		}
		if got := pl.Count(); got != wantCount {
			vio("count", "PostingsList.Count()=%d want %d", got, wantCount)
			return
		}
		it, err := pl.Iterator(wantFreq, wantNorm, wantLocs, nil)
		if err != nil {
			f = apiFail("C05", "nav", "PostingsList.Iterator", nil, err)
			return
		}
		if got := it.Count(); got != wantCount {
			vio("count", "PostingsIterator.Count()=%d want %d", got, wantCount)
			return
		}
		if n.Replace {
			if opt, ok := it.(segment.OptimizablePostingsIterator); ok {
				if abm := opt.ActualBitmap(); abm != nil && len(actual) > 0 {
					sub := roaring.New()
					keep := map[uint64]bool{}
					for _, k := range n.Keep {
						keep[actual[int(k)%len(actual)].Doc] = true
					}
					var kept []model.PostObs
					for _, p := range actual {
						if keep[p.Doc] {
							kept = append(kept, p)
							sub.Add(uint32(p.Doc))
						}
					}
					// sub is a subset of ActualBitmap() by construction
					opt.ReplaceActual(sub)
					actual = kept
					res.probe("replace-actual")
				}
			}
		}
		pos := 0   // index into actual of the next candidate
		last := -1 // last returned doc
		prevTarget := 0
		finished := false
		for si, st := range n.Steps {
			var p segment.Posting
			var err error
			var want *model.PostObs
			desc := "Next()"
			if st.Adv {
				target := prevTarget
				if last+1 > target {
					target = last + 1
				}
				target += st.Delta
				prevTarget = target
				desc = fmt.Sprintf("Advance(%d)", target)
				start := pos
				for pos < len(actual) && int(actual[pos].Doc) < target {
					pos++
				}
				if pos > start {
					res.probe("advance-skips")
					res.NonTrivial = true
					if pos < len(actual) && start > 0 && int(actual[pos].Doc)/cs != int(actual[start-1].Doc)/cs {
						res.probe("advance-crosses-chunk")
					}
				}
				p, err = it.Advance(uint64(target))
			} else {
				p, err = it.Next()
			}
			if err != nil {
				f = apiFail("C05", "nav", desc, nil, err)
				return
			}
			if pos < len(actual) {
				want = &actual[pos]
				// excluded postings between the previous and this one?
				if len(actual) != len(list) && !n.Replace {
					lo := uint64(0)
					if pos > 0 {
						lo = actual[pos-1].Doc + 1
					}
					for d := lo; d < want.Doc; d++ {
						if excluded[d] {
							res.probe("exclusion-skips")
							res.NonTrivial = true
							break
						}
					}
				}
				pos++
			}
			if want == nil {
				if p != nil {
					vio("end", "step %d %s after last=%d returned doc %d, want nil (end of list)", si, desc, last, p.Number())
					return
				}
				if finished {
					res.probe("nil-stays-nil")
				}
				finished = true
				continue
			}
			if p == nil {
				vio("missing", "step %d %s after last=%d returned nil, want doc %d", si, desc, last, want.Doc)
				return
			}
			got := ReadPosting(p, wantFreq, wantNorm, wantLocs)
			w2 := *want
			if !wantFreq {
				w2.Freq = 0
			}
			if !wantNorm {
				w2.Norm = 0
			}
			if !wantLocs {
				w2.Locs = nil
			}
			if d := model.DiffPost(&got, &w2); d != "" {
				site := "payload"
				if got.Doc != w2.Doc {
					site = "docnum"
				}
				vio(site, "step %d %s after last=%d (flags %03b): %s", si, desc, last, n.Flags, d)
				return
			}
			last = int(want.Doc)
		}
	})
	if pi != nil {
		res.Fail = &Fail{Prop: "C05", Oracle: "nav", Kind: "panic", Site: pi.Site, Detail: fmt.Sprintf("seg %d field %q term %q: %s", ws.Idx, field, string(term), pi.Msg)}
		return res
	}
	res.Fail = f
	return res
}
