package sim

import (
	"errors"
	"fmt"
	"io"
	"os"
	"reflect"
	"syscall"
	"unsafe"

	segment "github.com/blugelabs/bluge_segment_api"
)

// ---- segment.Data over an arbitrary io.ReaderAt --------------------------------
//
// The public constructor for file-backed data only accepts *os.File. The
// harness builds the same struct around a SimReaderAt through a mirror type
// whose layout is asserted at start-up.

type dataMirror struct {
	mem []byte
	r   io.ReaderAt
	sz  int
}

// SelfTestDataMirror asserts that dataMirror and segment.Data are laid out
// identically.
func SelfTestDataMirror() error {
	a := reflect.TypeOf(segment.Data{})
	b := reflect.TypeOf(dataMirror{})
	if a.NumField() != b.NumField() || a.Size() != b.Size() {
		return fmt.Errorf("segment.Data layout changed: %d fields/%d bytes, mirror has %d/%d",
			a.NumField(), a.Size(), b.NumField(), b.Size())
	}
	for i := 0; i < a.NumField(); i++ {
		fa, fb := a.Field(i), b.Field(i)
		if fa.Name != fb.Name || fa.Type != fb.Type || fa.Offset != fb.Offset {
			return fmt.Errorf("segment.Data field %d is %s %s @%d, mirror has %s %s @%d",
				i, fa.Name, fa.Type, fa.Offset, fb.Name, fb.Type, fb.Offset)
		}
	}
	// behavioural check
	img := []byte("0123456789")
	d := NewDataReaderAt(&SimReaderAt{img: img}, len(img))
	if d.Len() != 10 {
		return fmt.Errorf("mirror Data.Len()=%d", d.Len())
	}
	got, err := d.Read(2, 5)
	if err != nil || string(got) != "234" {
		return fmt.Errorf("mirror Data.Read = %q, %v", got, err)
	}
	return nil
}

// NewDataReaderAt returns a file-style segment.Data reading from r.
func NewDataReaderAt(r io.ReaderAt, sz int) *segment.Data {
	d := &dataMirror{r: r, sz: sz}
	return (*segment.Data)(unsafe.Pointer(d))
}

// ---- simulated read side ---------------------------------------------------------

// Read fault kinds.
const (
	RFClosed   = iota // os.ErrClosed, nothing read
	RFEIO             // EIO, nothing read
	RFShort           // half of the bytes, io.ErrUnexpectedEOF
	RFEINTR           // EINTR in a *PathError, nothing read: an error that invites an unbounded retry loop
	RFShortEOF        // half of the bytes and io.EOF: what ReadAt reports when the file ends early (a file truncated behind the segment's back)
	NumReadFaultKinds
)

var ReadFaultNames = []string{"closed", "eio", "short", "eintr", "short-eof"}

// LivelockPanic is raised by a SimReaderAt whose per-call read budget is
// exhausted: the code under test keeps reading (typically retrying a failing
// read) instead of returning. The harness turns it into a verdict; without the
// budget the call would spin until the stall watchdog ends the shard.
type LivelockPanic struct{ Reads int }

func (l *LivelockPanic) Error() string {
	return fmt.Sprintf("livelock: %d storage reads issued by one call without returning", l.Reads)
}

// ReadFault describes when a SimReaderAt fails: calls with index in
// [From, From+Count) fail (Count<=0: every call from From on).
type ReadFault struct {
	From  int `json:"from"`
	Count int `json:"count,omitempty"`
	Kind  int `json:"kind"`
}

// SimReaderAt serves an immutable byte image with os.File.ReadAt semantics,
// is a scheduling point on every call, and injects faults per its plan.
type SimReaderAt struct {
	img   []byte
	sched *Sched
	fault *ReadFault
	calls int // ReadAt calls so far
	Fired int // faults delivered
	// OnRead, when set, is invoked with the call index before each read is
	// served (cancellation triggers; single-task runs only)
	OnRead func(idx int)
	// FaultFn, when set, decides per call whether it fails (single-task runs
	// only; used when several readers share one global fault plan)
	FaultFn func(idx int) (fail bool, kind int)
	// Budget, when > 0, bounds the reads issued since the last Mark()
	Budget    int
	sinceMark int
}

// Mark starts a new budget period (the harness calls it between API calls).
//
//go:norace
func (r *SimReaderAt) Mark() { r.sinceMark = 0 }

//go:norace
func (r *SimReaderAt) overBudget() int {
	r.sinceMark++
	if r.Budget > 0 && r.sinceMark > r.Budget {
		return r.sinceMark
	}
	return 0
}

func NewSimReaderAt(img []byte, sched *Sched) *SimReaderAt {
	return &SimReaderAt{img: img, sched: sched}
}

//go:norace
func (r *SimReaderAt) tick() (idx int, fail bool, kind int) {
	idx = r.calls
	r.calls++
	if f := r.fault; f != nil && idx >= f.From && (f.Count <= 0 || idx < f.From+f.Count) {
		r.Fired++
		return idx, true, f.Kind
	}
	return idx, false, 0
}

// Calls returns the number of ReadAt calls so far.
//
//go:norace
func (r *SimReaderAt) Calls() int { return r.calls }

// FiredCount returns the number of faults delivered so far.
//
//go:norace
func (r *SimReaderAt) FiredCount() int { return r.Fired }

// SetFault installs (or clears, with nil) the fault plan. Call indices in the
// plan are absolute (compare Calls()).
//
//go:norace
func (r *SimReaderAt) SetFault(f *ReadFault) { r.fault = f }

func (r *SimReaderAt) ReadAt(p []byte, off int64) (int, error) {
	idx, fail, kind := r.tick()
	if n := r.overBudget(); n > 0 {
		panic(&LivelockPanic{Reads: n})
	}
	if r.OnRead != nil {
		r.OnRead(idx)
	}
	if r.FaultFn != nil {
		if ff, k := r.FaultFn(idx); ff {
			fail, kind = true, k
			r.Fired++
		}
	}
	r.sched.Yield(evRead, uint64(off)<<20^uint64(len(p)))
	if fail {
		r.sched.note(evFault, uint64(kind))
		switch kind {
		case RFClosed:
			return 0, os.ErrClosed
		case RFEIO:
			return 0, syscall.EIO
		case RFEINTR:
			return 0, &os.PathError{Op: "read", Path: "simdisk", Err: syscall.EINTR}
		case RFShortEOF:
			n := 0
			if off >= 0 && off < int64(len(r.img)) {
				n = copy(p[:len(p)/2], r.img[off:])
			}
			return n, io.EOF
		default:
			n := 0
			if off >= 0 && off < int64(len(r.img)) {
				n = copy(p[:len(p)/2], r.img[off:])
			}
			return n, io.ErrUnexpectedEOF
		}
	}
	if off < 0 {
		return 0, errors.New("simdisk: negative offset")
	}
	if off >= int64(len(r.img)) {
		return 0, io.EOF
	}
	n := copy(p, r.img[off:])
	if n < len(p) {
		return n, io.EOF
	}
	return n, nil
}

// Ticker counts seam events (reads and writes reported to it) and closes a
// channel when the count reaches At. Seam events may come from goroutines the
// code under test started itself, concurrently: closures over local variables
// would be harness races the detector reports below ice frames, so all state
// lives here and is touched only by //go:norace methods (closures do not
// inherit the pragma).
type Ticker struct {
	Events int
	At     int // fire when Events == At (before counting that event); < 0: never
	Ch     chan struct{}
	Closed bool
	sched  *Sched
}

func NewTicker(at int, ch chan struct{}, sched *Sched) *Ticker {
	return &Ticker{At: at, Ch: ch, sched: sched}
}

//go:norace
func (t *Ticker) Tick() {
	if t.At >= 0 && t.Events == t.At && !t.Closed && t.Ch != nil {
		t.Closed = true
		close(t.Ch)
		t.sched.note(evCancel, uint64(t.Events))
	}
	t.Events++
}

//go:norace
func (t *Ticker) OnRead(int) { t.Tick() }

//go:norace
func (t *Ticker) OnWrite(int, int) { t.Tick() }

//go:norace
func (t *Ticker) Count() int { return t.Events }

// GlobalFaultPlan decides read faults over ONE read index shared by several
// readers (the inputs of a merge).
type GlobalFaultPlan struct {
	counter int
	Fault   *ReadFault
}

//go:norace
func (g *GlobalFaultPlan) Decide(int) (bool, int) {
	idx := g.counter
	g.counter++
	if f := g.Fault; f != nil && idx >= f.From && (f.Count <= 0 || idx < f.From+f.Count) {
		return true, f.Kind
	}
	return false, 0
}

//go:norace
func (g *GlobalFaultPlan) Reads() int { return g.counter }

// ---- simulated write side --------------------------------------------------------

var ErrSimDiskFull = errors.New("simdisk: no space left on device")
var ErrSimInterrupted = errors.New("simdisk: interrupted write")

// simNetError is a failure that describes itself as temporary / a timeout
// (EAGAIN-style, as net.Error and syscall.Errno values do). It is as much a
// failure as any other: nothing was written.
type simNetError struct{ msg string }

func (e *simNetError) Error() string   { return e.msg }
func (e *simNetError) Temporary() bool { return true }
func (e *simNetError) Timeout() bool   { return true }

var ErrSimTemporary error = &simNetError{msg: "simdisk: resource temporarily unavailable"}

// WriteFault: the writer accepts exactly After bytes; the write that would
// exceed that is cut short and fails. Once: only that one write fails.
type WriteFault struct {
	After int  `json:"after"`
	Once  bool `json:"once,omitempty"`
	Temp  bool `json:"temp,omitempty"`  // the error describes itself as Temporary()/Timeout()
	Short bool `json:"short,omitempty"` // the error is io.ErrShortWrite (a size-limited writer, a pipe)
	Full  bool `json:"full,omitempty"`  // the failing write stores ALL its bytes and reports the error with the full count (a mirroring writer whose second sink failed)
}

// SimWriter records what it receives, is a scheduling point on every call and
// fails per its plan. It never returns n<len(p) with a nil error.
type SimWriter struct {
	sched   *Sched
	Buf     []byte
	Calls   int
	Fault   *WriteFault
	Fired   int
	Syncs   int
	Truncs  int
	OnWrite func(callIdx, bytesBefore int) // invoked before each write is applied (cancellation triggers)
}

func NewSimWriter(sched *Sched) *SimWriter { return &SimWriter{sched: sched} }

// Rewind makes the writer an empty healthy file again (the same object: a
// caller that truncates its file and retries).
func (w *SimWriter) Rewind() {
	w.Buf, w.Calls, w.Fault, w.Fired, w.OnWrite = nil, 0, nil, 0, nil
}

// Truncate is what *os.File offers: code that probes its destination for it
// gets a file that is cut to size.
func (w *SimWriter) Truncate(size int64) error {
	w.Truncs++
	if size >= 0 && size < int64(len(w.Buf)) {
		w.Buf = w.Buf[:size]
	}
	return nil
}

// Sync makes the simulated file look like an *os.File to code that probes its
// destination for it. It never fails (nothing is cached below the simulated
// disk), in particular not after a failed write - so a caller that lets a
// successful Sync overwrite an earlier write error reports silent success.
func (w *SimWriter) Sync() error {
	w.Syncs++
	return nil
}

func (w *SimWriter) Write(p []byte) (int, error) {
	idx := w.Calls
	w.Calls++
	if w.OnWrite != nil {
		w.OnWrite(idx, len(w.Buf))
	}
	w.sched.Yield(evWrite, uint64(len(w.Buf))<<20^uint64(len(p)))
	if f := w.Fault; f != nil && len(w.Buf)+len(p) > f.After && !(f.Once && w.Fired > 0) {
		n := f.After - len(w.Buf)
		if n < 0 {
			n = 0
		}
		if f.Full {
			n = len(p)
		}
		w.Buf = append(w.Buf, p[:n]...)
		w.Fired++
		w.sched.note(evFault, 100)
		if f.Temp {
			return n, ErrSimTemporary
		}
		if f.Short {
			return n, io.ErrShortWrite
		}
		if f.Once {
			return n, ErrSimInterrupted
		}
		return n, ErrSimDiskFull
	}
	w.Buf = append(w.Buf, p...)
	return len(p), nil
}
