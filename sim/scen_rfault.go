package sim

import (
	"errors"
	"fmt"
	"os"
	"strings"
	"time"

	segment "github.com/blugelabs/bluge_segment_api"
	ice "github.com/blugelabs/ice/v2"
	"pgregory.net/rapid"
)

// Scenario "read-fault" (C19, fault enumeration): a file-backed segment and a
// program of read calls. The fault-free run yields R storage reads; then the
// storage is made to fail from read j on, for EVERY j in [0,R] and every error
// kind (persistent), and for a window of m reads (transient) at every j.
//
// Oracle per faulted run: (1) no call panics; (2) a call during which a
// storage error was delivered reports an error or an empty result; (3) after
// every call no segment mutex is held (a held mutex would block every later
// lookup) and every later call returns - with a goroutine-state hang detector
// as backstop; (4) after a transient fault ended, a call needs no more storage
// reads than the whole fault-free program (bounded liveness).

type RFaultCase struct {
	Seg    int   `json:"seg"`
	Prog   []ROp `json:"prog"`
	OSFile bool  `json:"osfile,omitempty"` // additionally: real temp file, Close() before each call in turn
	Sample int   `json:"sample,omitempty"` // >0 (read-fault-large): only this many evenly spread fault positions are tried
}

func init() {
	register(&Scenario{
		Name: "read-fault",
		Rule: "one case = one workload (segment + program of read calls) whose complete fault space is enumerated: every storage-read index x 5 error kinds persistent + 2 transient window lengths; non-trivial = the fault-free program performs >=10 storage reads and at least two different kinds of call; distinct = distinct case JSON",
		Gen:  genRFaultCase,
		Run:  runRFaultCase,
	})
}

func init() {
	register(&Scenario{
		Name: "read-fault-large",
		Rule: "like read-fault but on segments of 1000-2100 documents (multi-chunk doc values and postings, many stored blocks), where a program performs thousands of storage reads: fault positions are SAMPLED (evenly spread, 3 error kinds, persistent and transient), not enumerated; non-trivial = the segment has >1024 documents and the program crosses a doc-value or postings chunk boundary; distinct = distinct case JSON",
		Gen:  genRFaultLargeCase,
		Run:  runRFaultCase,
	})
}

func genRFaultLargeCase(t *rapid.T, prop string) *Case {
	o := WorldOpts{MinBuilds: 1, MaxBuilds: 1, MaxMerges: 1, BigPct: 100, HugePct: 80, Stores: []string{StoreFile}, MoreDV: true, FewTerms: true, FewFields: true}
	wd := GenWorld(t, o)
	rc := &RFaultCase{Seg: rapid.IntRange(0, 3).Draw(t, "seg"), Sample: rapid.IntRange(30, 80).Draw(t, "sample")}
	n := rapid.IntRange(2, 6).Draw(t, "nops")
	for i := 0; i < n; i++ {
		op := ROp{Kind: rapid.SampledFrom([]int{ROpDocValues, ROpDocValues, ROpDocValues, ROpPostings, ROpPostings, ROpStored, ROpDict}).Draw(t, "ropkind"),
			Field: rapid.IntRange(0, 7).Draw(t, "field"), Term: rapid.IntRange(0, 12).Draw(t, "term"), Flags: rapid.IntRange(0, 7).Draw(t, "flags")}
		if op.Kind == ROpDocValues || op.Kind == ROpStored {
			if rapid.IntRange(0, 1).Draw(t, "cluster") == 0 {
				// neighbours in one chunk, then a far document, then the neighbours again
				b := rapid.SampledFrom([]int{0, 3, 126, 700, 1020, 1024, 1500, 2046, 2050}).Draw(t, "base")
				far := rapid.SampledFrom([]int{0, 900, 1024, 1100, 2048, 2090, 3100}).Draw(t, "far")
				if rapid.IntRange(0, 1).Draw(t, "short") == 0 {
					op.Docs = []int{b, b + 1, far, b, b + 1}
				} else {
					op.Docs = []int{b, b + 1, b + 2, far, b, b + 1, b + 2}
				}
			} else {
				k := rapid.IntRange(2, 5).Draw(t, "ndocs")
				for j := 0; j < k; j++ {
					op.Docs = append(op.Docs, rapid.SampledFrom([]int{0, 5, 127, 128, 700, 1023, 1024, 1025, 1500, 2047, 2048, 2090, 3071, 3072}).Draw(t, "doc"))
				}
			}
		}
		rc.Prog = append(rc.Prog, op)
	}
	return &Case{World: wd, RFault: rc}
}

func genROp(t *rapid.T, nest bool) ROp {
	op := ROp{Kind: rapid.SampledFrom([]int{ROpDict, ROpDict, ROpPostings, ROpPostings, ROpPostings, ROpStored, ROpStored, ROpDocValues, ROpDocValues, ROpDMT, ROpStats, ROpPersist, ROpSize}).Draw(t, "ropkind")}
	switch op.Kind {
	case ROpDict, ROpStats:
		op.Field = rapid.IntRange(0, 7).Draw(t, "field")
	case ROpPostings, ROpDMT:
		op.Field = rapid.IntRange(0, 7).Draw(t, "field")
		op.Term = rapid.IntRange(0, 12).Draw(t, "term")
		op.Absent = rapid.IntRange(0, 9).Draw(t, "absent") == 0
		op.Flags = rapid.IntRange(0, 7).Draw(t, "flags")
		if op.Kind == ROpDMT {
			// further (field, term) entries, typically of other fields
			k := rapid.IntRange(0, 4).Draw(t, "dmtmore")
			for i := 0; i < k; i++ {
				op.Docs = append(op.Docs, rapid.IntRange(0, 7).Draw(t, "dmtfield"), rapid.IntRange(0, 12).Draw(t, "dmtterm"))
			}
		}
	case ROpStored, ROpDocValues:
		n := rapid.IntRange(1, 3).Draw(t, "ndocs")
		for i := 0; i < n; i++ {
			op.Docs = append(op.Docs, rapid.IntRange(0, 2200).Draw(t, "doc"))
		}
		if nest && rapid.IntRange(0, 2).Draw(t, "nested") == 0 {
			inner := genROp(t, false)
			if (inner.Kind == ROpStored || inner.Kind == ROpDocValues) && rapid.IntRange(0, 4).Draw(t, "burst") == 0 {
				// a burst: dozens of visits from inside one visitor callback (more
				// overlapping visits than any fixed-size ring of contexts has slots)
				k := rapid.IntRange(40, 90).Draw(t, "burst-n")
				for i := 0; i < k; i++ {
					inner.Docs = append(inner.Docs, rapid.IntRange(0, 2200).Draw(t, "bdoc"))
				}
			}
			op.Nest = &inner
		}
	}
	return op
}

func genRFaultCase(t *rapid.T, prop string) *Case {
	o := WorldOpts{NoExtremes: true, MinBuilds: 1, MaxBuilds: 2, MaxMerges: 1, BigPct: 0, MaxTinyDocs: 6, Stores: []string{StoreFile}, MoreDV: true}
	wd := GenWorld(t, o)
	rc := &RFaultCase{Seg: rapid.IntRange(0, 5).Draw(t, "seg"), OSFile: rapid.IntRange(0, 19).Draw(t, "osfile") == 0}
	n := rapid.IntRange(3, 12).Draw(t, "nops")
	for i := 0; i < n; i++ {
		rc.Prog = append(rc.Prog, genROp(t, false))
	}
	return &Case{World: wd, RFault: rc}
}

// rfRun executes the program once on a freshly loaded file-backed view.
type rfRun struct {
	reads      int // storage reads performed by the program (excluding Load)
	perCall    []int
	fail       *Fail
	hung       *HangInfo
	errCalls   int // API calls that reported an error
	emptyCalls int
	absorbed   int // operations that absorbed a failed storage read and still delivered the complete right result
	recovered  int // calls that succeeded after a transient fault ended
	verified   int // full re-reads with fresh objects after a transient fault
	trace      uint64
}

func runRFaultOnce(ws *WSeg, prog []ROp, fault *ReadFault, maxReadsPerCall int, label string) *rfRun {
	out := &rfRun{}
	sched := NewSched(nil)
	ra := NewSimReaderAt(ws.Bytes, sched)
	var seg segment.Segment
	var lerr error
	pi := Guard(func() { seg, lerr = ice.Load(NewDataReaderAt(ra, len(ws.Bytes))) })
	if pi != nil || lerr != nil {
		out.fail = apiFail("C04", "world", "Load(file view)", pi, lerr)
		return out
	}
	sched.WatchMutexes(seg)
	base := ra.Calls()
	if fault != nil {
		f := *fault
		f.From += base
		ra.SetFault(&f)
	}
	if maxReadsPerCall > 0 {
		// a call that keeps reading (an unbounded retry of a failing read) is cut
		// off far beyond anything a returning call needs
		ra.Budget = 20*maxReadsPerCall + 2000
		ra.Mark()
	}
	body := func(int) {
		for oi := range prog {
			op := &prog[oi]
			firedBeforeOp := ra.FiredCount()
			callStartReads := ra.Calls()
			callStartFired := ra.FiredCount()
			hooks := &ropHooks{sched: sched, retry: true}
			suspect, suspectAPI := "", ""
			hooks.after = func(api string, err error, empty bool) bool {
				ra.Mark()
				reads := ra.Calls() - callStartReads
				fired := ra.FiredCount() - callStartFired
				out.perCall = append(out.perCall, reads)
				callStartReads = ra.Calls()
				callStartFired = ra.FiredCount()
				where := fmt.Sprintf("%s: op #%d (%s) call %s", label, oi, ROpNames[op.Kind], api)
				if sched.AnyLocked() {
					out.fail = &Fail{Prop: "C19", Oracle: "read-fault", Kind: "lock", Site: api, Detail: where + fmt.Sprintf(" returned (err=%v) with the segment mutex still held: every later dictionary lookup on this segment blocks forever", err)}
					return false
				}
				if fired > 0 && err == nil && !empty && suspect == "" {
					// neither an error nor an empty result although storage reads failed
					// during the call. That is a violation unless what the call delivered
					// is nevertheless complete and right (the failed read was speculative,
					// or the code retried): judged when the operation has finished
					suspect, suspectAPI = where+fmt.Sprintf(": %d storage read(s) failed during the call, yet it reported neither an error nor an empty result", fired), api
				}
				if err != nil {
					out.errCalls++
					if fired == 0 && ra.FiredCount() == 0 {
						out.fail = &Fail{Prop: "C19", Oracle: "read-fault", Kind: "error", Site: api, Detail: where + fmt.Sprintf(" failed on healthy storage: %v", err)}
						return false
					}
				} else if empty {
					out.emptyCalls++
				}
				if fault != nil && fault.Count > 0 && ra.Calls() > base+fault.From+fault.Count && fired == 0 {
					// the transient fault is over
					if maxReadsPerCall > 0 && reads > maxReadsPerCall {
						out.fail = &Fail{Prop: "C19", Oracle: "read-fault", Kind: "liveness", Site: api, Detail: where + fmt.Sprintf(" needed %d storage reads after the fault ended (the whole fault-free program needs %d)", reads, maxReadsPerCall)}
						return false
					}
					if err == nil {
						out.recovered++
					}
				}
				return true
			}
			var opErr error
			var opGot *RRes
			pi := Guard(func() { opGot, opErr = ExecROp(ws, seg, op, hooks) })
			if pi != nil {
				kind := "panic"
				if strings.Contains(pi.Msg, "livelock:") {
					kind = "hang" // the call never returned: it was cut off by the read budget
				}
				out.fail = &Fail{Prop: "C19", Oracle: "read-fault", Kind: kind, Site: pi.Site, Detail: fmt.Sprintf("%s: op #%d (%s) panicked (faults delivered so far: %d, during this op: %d): %s", label, oi, ROpNames[op.Kind], ra.FiredCount(), ra.FiredCount()-firedBeforeOp, pi.Msg)}
				return
			}
			ra.Mark()
			if out.fail != nil {
				return
			}
			if suspect != "" {
				if opErr == nil {
					if d := DiffRRes(opGot, ExpectROp(ws, op)); d != "" {
						out.fail = &Fail{Prop: "C19", Oracle: "read-fault", Kind: "silent-success", Site: suspectAPI, Detail: suspect + "; the operation then completed without any error but delivered a wrong or incomplete result: " + d}
						return
					}
					out.absorbed++
				} else if mm := (*RopMismatch)(nil); errors.As(opErr, &mm) {
					// no API call reported an error; the harness found the outcome wrong
					out.fail = &Fail{Prop: "C19", Oracle: "read-fault", Kind: "silent-success", Site: suspectAPI, Detail: suspect + "; no call of the operation reported an error, and the outcome is wrong: " + mm.Msg}
					return
				} else if pre := PrefixRRes(opGot, ExpectROp(ws, op)); pre != "" {
					out.fail = &Fail{Prop: "C19", Oracle: "read-fault", Kind: "silent-success", Site: suspectAPI, Detail: suspect + "; what the operation had delivered when a later call did report an error is not a prefix of the right result: " + pre}
					return
				}
			}
			if sched.AnyLocked() {
				out.fail = &Fail{Prop: "C19", Oracle: "read-fault", Kind: "lock", Site: ROpNames[op.Kind], Detail: fmt.Sprintf("%s: after op #%d (%s) the segment mutex is still held", label, oi, ROpNames[op.Kind])}
				return
			}
		}
		// a transient fault is over: the segment is immutable, so everything read
		// through FRESH objects (new dictionaries, lists, readers) must be what it
		// was before - a failed read may break the object it hit, never the segment
		if fault != nil && fault.Count > 0 && ra.Calls() >= base+fault.From+fault.Count {
			for oi := range prog {
				op := &prog[oi]
				if op.Kind == ROpPersist || op.Kind == ROpSize {
					continue
				}
				var got *RRes
				var err error
				pi := Guard(func() { got, err = ExecROp(ws, seg, op, &ropHooks{sched: sched}) })
				where := fmt.Sprintf("%s: after the fault ended, op #%d (%s) repeated with fresh objects", label, oi, ROpNames[op.Kind])
				if pi != nil {
					out.fail = &Fail{Prop: "C19", Oracle: "read-fault", Kind: "panic", Site: pi.Site, Detail: where + " panicked: " + pi.Msg}
					return
				}
				if err != nil {
					out.fail = &Fail{Prop: "C15", Oracle: "immutability", Kind: "error", Site: "after-transient-fault", Detail: fmt.Sprintf("%s failed although the storage is healthy again: %v", where, err)}
					return
				}
				if d := DiffRRes(got, ExpectROp(ws, op)); d != "" {
					out.fail = mismatch("C15", "immutability", "after-transient-fault:"+ROpNames[op.Kind], where+" no longer reads what the segment holds: "+d)
					return
				}
			}
			out.verified++
		}
		// afterwards every kind of lookup must still return
		for _, f := range ropNames(ws) {
			pi := Guard(func() { _, _ = seg.Dictionary(f) })
			if pi != nil {
				out.fail = &Fail{Prop: "C19", Oracle: "read-fault", Kind: "panic", Site: pi.Site, Detail: fmt.Sprintf("%s: Dictionary(%q) after the program panicked: %s", label, f, pi.Msg)}
				return
			}
			if sched.AnyLocked() {
				out.fail = &Fail{Prop: "C19", Oracle: "read-fault", Kind: "lock", Site: "Dictionary", Detail: fmt.Sprintf("%s: Dictionary(%q) after the program returned with the segment mutex held", label, f)}
				return
			}
		}
	}
	if h := sched.Run([]func(int){body}, 20*time.Second); h != nil {
		out.hung = h
	}
	out.reads = ra.Calls() - base
	out.trace = sched.Trace
	return out
}

func runRFaultCase(c *Case, env *Env) *Result {
	res := &Result{}
	sched := NewSched(nil)
	w, fail := BuildWorldFor(env.Prop, c.World, sched)
	res.absorb(sched)
	if fail != nil {
		res.Fail = fail
		return res
	}
	res.Shape = worldShape(w)
	rc := c.RFault
	ws := w.Segs[rc.Seg%len(w.Segs)]

	hang := func(r *rfRun, label string) *Fail {
		if r.hung.MutexBlocked {
			return &Fail{Prop: "C19", Oracle: "read-fault", Kind: "hang", Site: "sync.Mutex.Lock", Detail: label + ": a read call blocked forever on a segment mutex\n" + r.hung.Dump}
		}
		panic(&HarnessPanic{Msg: "run hung without a goroutine blocked on a segment mutex", Stack: r.hung.Dump})
	}

	// fault-free run
	free := runRFaultOnce(ws, rc.Prog, nil, 0, "fault-free")
	res.SubRuns++
	if free.hung != nil {
		res.Fail = hang(free, "fault-free")
		return res
	}
	if free.fail != nil {
		res.Fail = free.fail
		return res
	}
	R := free.reads
	// ---- faults during Load itself: every read of the load, every error kind,
	// persistent and one-shot: Load must report the error (it is a read call like
	// any other), never panic, never hand out a segment as if nothing had happened
	if rc.Sample == 0 {
		probe := NewSimReaderAt(ws.Bytes, nil)
		if _, err := ice.Load(NewDataReaderAt(probe, len(ws.Bytes))); err == nil {
			loadReads := probe.Calls()
			for j := 0; j < loadReads; j++ {
				for k := 0; k < NumReadFaultKinds; k++ {
					for _, count := range []int{0, 1} {
						ra := NewSimReaderAt(ws.Bytes, nil)
						ra.SetFault(&ReadFault{From: j, Count: count, Kind: k})
						ra.Budget = 20*loadReads + 2000
						var seg segment.Segment
						var lerr error
						pi := Guard(func() { seg, lerr = ice.Load(NewDataReaderAt(ra, len(ws.Bytes))) })
						res.SubRuns++
						res.fault("during-load-"+ReadFaultNames[k], 1, 1)
						label := fmt.Sprintf("storage fails (%s, count %d) at read %d of the %d reads of Load", ReadFaultNames[k], count, j, loadReads)
						if pi != nil {
							res.Fail = &Fail{Prop: "C19", Oracle: "read-fault", Kind: "panic", Site: pi.Site, Detail: label + ": Load panicked: " + pi.Msg}
							return res
						}
						if lerr == nil && ra.FiredCount() > 0 {
							// Load absorbed a failed read (a speculative read, a retry): fine
							// if the segment it returned is complete and right - checkable
							// once the storage is healthy again, i.e. for the one-shot fault
							if count > 0 {
								ra.Budget = 0 // the budget was Load's; reading the whole segment takes more
								if f := checkModel("C19", ws, seg, label+": Load returned a segment and no error, and that segment", false); f != nil {
									f.Oracle, f.Kind, f.Site = "read-fault", "silent-success", "Load"
									res.Fail = f
									return res
								}
								res.probe("load-absorbed-a-failed-read-and-returned-the-right-segment")
							}
						}
					}
				}
			}
			res.probeN("load-reads-enumerated", loadReads)
		}
	}
	kinds := map[int]bool{}
	for _, op := range rc.Prog {
		kinds[op.Kind] = true
	}
	res.NonTrivial = R >= 10 && len(kinds) >= 2
	res.probeN("fault-free-storage-reads", R)
	res.Events += R

	try := func(f *ReadFault, label string) bool {
		Heartbeat()
		r := runRFaultOnce(ws, rc.Prog, f, R+8, label)
		res.SubRuns++
		res.Events += r.reads
		res.Trace = res.Trace*1099511628211 ^ r.trace
		kind := ReadFaultNames[f.Kind]
		if f.Count > 0 {
			kind += "-transient"
		}
		fired := 0
		if r.errCalls > 0 || r.emptyCalls > 0 || r.fail != nil || r.hung != nil {
			fired = 1
		}
		res.fault(kind, 1, fired)
		res.probeN("calls-reporting-error", r.errCalls)
		res.probeN("operations-absorbing-a-failed-read-with-the-right-result", r.absorbed)
		res.probeN("calls-recovered-after-transient-fault", r.recovered)
		res.probeN("segment-re-read-with-fresh-objects-after-transient-fault", r.verified)
		if r.hung != nil {
			res.Fail = hang(r, label)
			return false
		}
		if r.fail != nil {
			res.Fail = r.fail
			return false
		}
		return true
	}
	stride := 1
	if rc.Sample > 0 && R > rc.Sample {
		stride = R / rc.Sample
		res.probe("fault-positions-sampled")
		res.NonTrivial = len(ws.Docs) > 1024
	}
	for j := 0; j <= R; j += stride {
		for k := 0; k < NumReadFaultKinds; k++ {
			if stride > 1 && k != j%NumReadFaultKinds {
				continue // sampled mode: one persistent kind per position
			}
			if !try(&ReadFault{From: j, Kind: k}, fmt.Sprintf("storage fails (%s) from read %d of %d on", ReadFaultNames[k], j, R)) {
				return res
			}
		}
		for _, m := range []int{1, 3} {
			if !try(&ReadFault{From: j, Count: m, Kind: (j + m) % NumReadFaultKinds}, fmt.Sprintf("storage fails (%s) for reads %d..%d of %d", ReadFaultNames[(j+m)%NumReadFaultKinds], j, j+m-1, R)) {
				return res
			}
		}
	}

	if rc.OSFile {
		if f := runOSFileVariant(ws, rc.Prog, res); f != nil {
			res.Fail = f
			return res
		}
	}
	return res
}

// runOSFileVariant: the shape named in the property's observe_at - a real
// file behind segment.NewDataFile that is closed before call k, for every k.
func runOSFileVariant(ws *WSeg, prog []ROp, res *Result) *Fail {
	dir, err := os.MkdirTemp("", "icesim-osfile-")
	if err != nil {
		panic(&HarnessPanic{Msg: "mkdirtemp: " + err.Error()})
	}
	defer os.RemoveAll(dir)
	path := dir + "/seg.ice"
	if err := os.WriteFile(path, ws.Bytes, 0o600); err != nil {
		panic(&HarnessPanic{Msg: "writefile: " + err.Error()})
	}
	for k := 0; k <= len(prog); k++ {
		f, err := os.Open(path)
		if err != nil {
			panic(&HarnessPanic{Msg: "open: " + err.Error()})
		}
		data, err := segment.NewDataFile(f)
		if err != nil {
			f.Close()
			panic(&HarnessPanic{Msg: "NewDataFile: " + err.Error()})
		}
		var seg segment.Segment
		var lerr error
		if pi := Guard(func() { seg, lerr = ice.Load(data) }); pi != nil || lerr != nil {
			f.Close()
			return apiFail("C04", "world", "Load(os file)", pi, lerr)
		}
		sched := NewSched(nil)
		sched.WatchMutexes(seg)
		label := fmt.Sprintf("os file closed before op #%d", k)
		var fail *Fail
		body := func(int) {
			for oi := range prog {
				if oi == k {
					f.Close()
				}
				hooks := &ropHooks{sched: sched}
				hooks.after = func(api string, err error, empty bool) bool {
					if sched.AnyLocked() {
						fail = &Fail{Prop: "C19", Oracle: "read-fault", Kind: "lock", Site: api, Detail: fmt.Sprintf("%s: op #%d call %s returned (err=%v) with the segment mutex still held", label, oi, api, err)}
						return false
					}
					if err != nil && oi < k && !errors.Is(err, os.ErrClosed) {
						fail = &Fail{Prop: "C19", Oracle: "read-fault", Kind: "error", Site: api, Detail: fmt.Sprintf("%s: op #%d call %s failed before the file was closed: %v", label, oi, api, err)}
						return false
					}
					return true
				}
				pi := Guard(func() { _, _ = ExecROp(ws, seg, &prog[oi], hooks) })
				if pi != nil {
					fail = &Fail{Prop: "C19", Oracle: "read-fault", Kind: "panic", Site: pi.Site, Detail: fmt.Sprintf("%s: op #%d (%s) panicked: %s", label, oi, ROpNames[prog[oi].Kind], pi.Msg)}
				}
				if fail != nil {
					return
				}
			}
		}
		h := sched.Run([]func(int){body}, 20*time.Second)
		f.Close()
		res.SubRuns++
		res.fault("osfile-closed", 1, 1)
		if h != nil {
			if h.MutexBlocked {
				return &Fail{Prop: "C19", Oracle: "read-fault", Kind: "hang", Site: "sync.Mutex.Lock", Detail: label + ": a read call blocked forever on a segment mutex\n" + h.Dump}
			}
			panic(&HarnessPanic{Msg: "os-file run hung", Stack: h.Dump})
		}
		if fail != nil {
			return fail
		}
	}
	res.probe("osfile-variant")
	return nil
}
