package sim

import (
	"encoding/json"
	"fmt"
	"reflect"
	"sort"

	segment "github.com/blugelabs/bluge_segment_api"

	"icesim/model"
)

// Generic read operations used by the read-fault (C19) and concurrency (C09)
// scenarios: a small program language over one segment, an executor against
// the real API, and the expected (solo) result computed from the model.

const (
	ROpDict      = iota // enumerate a field's dictionary with counts
	ROpPostings         // walk one postings list with flags
	ROpStored           // VisitStoredFields of one document
	ROpDocValues        // one reader, several documents
	ROpDMT              // DocsMatchingTerms
	ROpStats            // CollectionStats
	ROpPersist          // Segment.WriteTo
	ROpSize             // Segment.Size() (called for the race detector; must be positive)
	NumROpKinds
)

var ROpNames = []string{"dict", "postings", "stored", "docvalues", "dmt", "stats", "persist", "size"}

type ROp struct {
	Kind   int   `json:"kind"`
	Field  int   `json:"field,omitempty"`
	Term   int   `json:"term,omitempty"`
	Absent bool  `json:"absent,omitempty"`
	Flags  int   `json:"flags,omitempty"`
	Docs   []int `json:"docs,omitempty"`
	Nest   *ROp  `json:"nest,omitempty"` // executed on the same segment from inside the first visitor callback (stored / docvalues only)
}

// RRes is the canonical result of an operation.
type RRes struct {
	Terms  []model.TermObs `json:"terms,omitempty"`
	Posts  []model.PostObs `json:"posts,omitempty"`
	Count  uint64          `json:"count,omitempty"`
	FVs    [][]model.FV    `json:"fvs,omitempty"`
	Docs   []uint32        `json:"docs,omitempty"`
	Stat   *model.StatObs  `json:"stat,omitempty"`
	NBytes int             `json:"nbytes,omitempty"`
	Nested *RRes           `json:"nested,omitempty"`
}

func (r *RRes) String() string {
	b, _ := json.Marshal(r)
	if len(b) > 400 {
		return string(b[:400]) + "..."
	}
	return string(b)
}

// ropHooks lets a scenario observe every API call an operation makes.
type ropHooks struct {
	// after is invoked after each API call with whether the call delivered an
	// empty result (no callback / nil entry / empty set). Returning false
	// aborts the operation.
	after func(api string, err error, empty bool) bool
	sched *Sched
	// reuse: the task keeps one postings list and one iterator and passes
	// them as prealloc to every postings lookup (as a searcher does)
	reuse bool
	pl    segment.PostingsList
	it    segment.PostingsIterator
	// retry: after a call on an iterator / reader object reported an error,
	// the same object is used again (a caller may retry); this must not panic
	retry bool
}

func (h *ropHooks) call(api string, err error, empty bool) bool {
	if h == nil || h.after == nil {
		return err == nil
	}
	return h.after(api, err, empty) && err == nil
}

func ropNames(ws *WSeg) []string {
	return append(append([]string(nil), ws.Fields...), model.UnknownField)
}

func ropTerm(ws *WSeg, op *ROp) (field string, term []byte, list []model.PostObs) {
	names := ropNames(ws)
	field = names[op.Field%len(names)]
	all := ws.Exp().Dicts[field]
	if !op.Absent && len(all) > 0 {
		to := all[op.Term%len(all)]
		return field, to.Term, to.Posts
	}
	// a text that usually exists in another field of the segment
	pool := termPool(ws)
	term = pool[op.Term%len(pool)]
	for _, to := range all {
		if bytesEq(to.Term, term) {
			list = to.Posts
		}
	}
	return
}

func ropDocs(ws *WSeg, op *ROp) []uint64 {
	var out []uint64
	if len(ws.Docs) == 0 {
		return nil
	}
	for _, d := range op.Docs {
		if d < 0 {
			d = -d
		}
		out = append(out, uint64(d%len(ws.Docs)))
	}
	return out
}

// ExpectROp computes the result the operation must deliver when run alone.
func ExpectROp(ws *WSeg, op *ROp) *RRes {
	exp := ws.Exp()
	r := &RRes{}
	switch op.Kind {
	case ROpDict:
		names := ropNames(ws)
		for _, to := range exp.Dicts[names[op.Field%len(names)]] {
			r.Terms = append(r.Terms, model.TermObs{Term: to.Term, Count: to.Count})
		}
	case ROpPostings:
		_, _, list := ropTerm(ws, op)
		wf, wn, wl := op.Flags&1 != 0, op.Flags&2 != 0, op.Flags&4 != 0
		r.Count = uint64(len(list))
		for _, p := range list {
			q := model.PostObs{Doc: p.Doc}
			if wf {
				q.Freq = p.Freq
			}
			if wn {
				q.Norm = p.Norm
			}
			if wl {
				q.Locs = p.Locs
			}
			r.Posts = append(r.Posts, q)
		}
	case ROpStored:
		for _, d := range ropDocs(ws, op) {
			r.FVs = append(r.FVs, append([]model.FV{}, exp.Stored[d]...))
		}
	case ROpDocValues:
		for _, d := range ropDocs(ws, op) {
			r.FVs = append(r.FVs, append([]model.FV{}, exp.DV[d]...))
		}
	case ROpDMT:
		seen := map[uint32]bool{}
		for _, sub := range dmtEntries(op) {
			_, _, list := ropTerm(ws, &sub)
			for _, p := range list {
				seen[uint32(p.Doc)] = true
			}
		}
		for d := range seen {
			r.Docs = append(r.Docs, d)
		}
		sort.Slice(r.Docs, func(i, j int) bool { return r.Docs[i] < r.Docs[j] })
	case ROpStats:
		names := ropNames(ws)
		s := exp.Stats[names[op.Field%len(names)]]
		r.Stat = &s
	case ROpPersist:
		r.NBytes = len(ws.Bytes)
	case ROpSize:
		r.NBytes = 0
	}
	if op.Nest != nil && (op.Kind == ROpStored || op.Kind == ROpDocValues) && nestFires(ws, op) {
		r.Nested = ExpectROp(ws, op.Nest)
	}
	return r
}

// dmtEntries: a DocsMatchingTerms operation lists its own (field, term) and,
// encoded pairwise in Docs, further entries - typically of other fields.
func dmtEntries(op *ROp) []ROp {
	out := []ROp{{Field: op.Field, Term: op.Term, Absent: op.Absent}}
	for i := 0; i+1 < len(op.Docs); i += 2 {
		out = append(out, ROp{Field: op.Docs[i], Term: op.Docs[i+1]})
	}
	return out
}

// nestFires: the nested operation runs inside the first visitor callback, so
// only if the outer operation delivers at least one value.
func nestFires(ws *WSeg, op *ROp) bool {
	exp := ws.Exp()
	for _, d := range ropDocs(ws, op) {
		src := exp.Stored
		if op.Kind == ROpDocValues {
			src = exp.DV
		}
		if len(src[d]) > 0 {
			return true
		}
	}
	return false
}

// RopMismatch is returned by ExecROp when the HARNESS finds what the calls
// delivered inconsistent (as opposed to an error reported by an API call).
type RopMismatch struct{ Msg string }

func (e *RopMismatch) Error() string { return e.Msg }

// ExecROp runs the operation against the real segment. It returns the result
// delivered so far and the first error. Panics propagate (callers Guard).
func ExecROp(ws *WSeg, seg segment.Segment, op *ROp, h *ropHooks) (*RRes, error) {
	r := &RRes{}
	var nestedDone bool
	var nestedErr error
	nest := func() {
		if op.Nest == nil || nestedDone {
			return
		}
		nestedDone = true
		r.Nested, nestedErr = ExecROp(ws, seg, op.Nest, h)
	}
	switch op.Kind {
	case ROpDict:
		names := ropNames(ws)
		dict, err := seg.Dictionary(names[op.Field%len(names)])
		if !h.call("Dictionary", err, false) {
			return r, err
		}
		it := dict.Iterator(nil, nil, nil)
		for {
			e, err := it.Next()
			if !h.call("DictionaryIterator.Next", err, e == nil) {
				if err != nil && h.retry {
					_, _ = it.Next()
					_, _ = it.Next()
				}
				return r, err
			}
			if e == nil {
				break
			}
			r.Terms = append(r.Terms, model.TermObs{Term: model.Bytes(e.Term()), Count: e.Count()})
			if len(r.Terms) > 1<<20 {
				return r, &RopMismatch{"dictionary iterator does not terminate"}
			}
		}
		_ = it.Close()
		_ = dict.Close()
	case ROpPostings:
		field, term, _ := ropTerm(ws, op)
		dict, err := seg.Dictionary(field)
		if !h.call("Dictionary", err, false) {
			return r, err
		}
		var prePL segment.PostingsList
		var preIt segment.PostingsIterator
		if h.reuse {
			prePL, preIt = h.pl, h.it
		}
		pl, err := dict.PostingsList(term, nil, prePL)
		if !h.call("PostingsList", err, false) {
			return r, err
		}
		r.Count = pl.Count()
		wf, wn, wl := op.Flags&1 != 0, op.Flags&2 != 0, op.Flags&4 != 0
		it, err := pl.Iterator(wf, wn, wl, preIt)
		if !h.call("PostingsList.Iterator", err, false) {
			return r, err
		}
		if h.reuse {
			h.pl, h.it = pl, it
		}
		for {
			p, err := it.Next()
			if !h.call("PostingsIterator.Next", err, p == nil) {
				if err != nil && h.retry {
					_, _ = it.Next()
					_, _ = it.Advance(uint64(len(ws.Docs) / 2))
					_, _ = it.Next()
				}
				return r, err
			}
			if p == nil {
				break
			}
			r.Posts = append(r.Posts, ReadPosting(p, wf, wn, wl))
			if len(r.Posts) > 1<<22 {
				return r, &RopMismatch{"postings iterator does not terminate"}
			}
		}
		if !h.reuse {
			// done with it: Close (some callers close twice, e.g. a deferred
			// Close after an explicit one)
			if err := it.Close(); err != nil {
				return r, fmt.Errorf("PostingsIterator.Close: %w", err)
			}
			if op.Term%2 == 1 {
				_ = it.Close()
			}
			_ = dict.Close()
		}
	case ROpStored:
		for _, d := range ropDocs(ws, op) {
			var got []model.FV
			err := seg.VisitStoredFields(d, func(field string, value []byte) bool {
				got = append(got, model.FV{F: field, V: append(model.Bytes{}, value...)})
				h.sched.Yield(evVisitor, d)
				nest()
				return true
			})
			r.FVs = append(r.FVs, append([]model.FV{}, got...))
			if !h.call("VisitStoredFields", err, len(got) == 0) {
				return r, err
			}
		}
	case ROpDocValues:
		dvr, err := seg.DocumentValueReader(ropNames(ws))
		if !h.call("DocumentValueReader", err, false) {
			return r, err
		}
		for _, d := range ropDocs(ws, op) {
			var got []model.FV
			err := dvr.VisitDocumentValues(d, func(field string, term []byte) {
				got = append(got, model.FV{F: field, V: append(model.Bytes{}, term...)})
				h.sched.Yield(evVisitor, d)
				nest()
			})
			r.FVs = append(r.FVs, append([]model.FV{}, got...))
			if !h.call("VisitDocumentValues", err, len(got) == 0) {
				if err != nil && h.retry {
					// the same reader again: the documents visited before and this one
					for _, d2 := range ropDocs(ws, op) {
						_ = dvr.VisitDocumentValues(d2, func(string, []byte) {})
					}
				}
				return r, err
			}
		}
	case ROpDMT:
		var terms []segment.Term
		for _, sub := range dmtEntries(op) {
			field, term, _ := ropTerm(ws, &sub)
			terms = append(terms, simTermRef{f: field, t: term})
		}
		bm, err := seg.DocsMatchingTerms(terms)
		empty := bm == nil || bm.IsEmpty()
		if !h.call("DocsMatchingTerms", err, empty) {
			return r, err
		}
		r.Docs = bm.ToArray()
		if len(r.Docs) == 0 {
			r.Docs = nil
		}
	case ROpStats:
		names := ropNames(ws)
		cs, err := seg.CollectionStats(names[op.Field%len(names)])
		if !h.call("CollectionStats", err, false) {
			return r, err
		}
		r.Stat = &model.StatObs{Total: cs.TotalDocumentCount(), Docs: cs.DocumentCount(), Sum: cs.SumTotalTermFrequency()}
	case ROpSize:
		// the value is not compared (an implementation may account for lazily
		// loaded caches, so it may legitimately grow while others read); the call
		// is made for the race detector and must return something sensible
		if sz := seg.Size(); sz <= 0 {
			r.NBytes = sz - 1
		}
		h.call("Size", nil, false)
	case ROpPersist:
		wr := NewSimWriter(h.sched)
		n, err := seg.WriteTo(wr, nil)
		if !h.call("Segment.WriteTo", err, false) {
			return r, err
		}
		r.NBytes = int(n)
		if int(n) != len(wr.Buf) || !bytesEq(wr.Buf, ws.Bytes) {
			return r, &RopMismatch{fmt.Sprintf("WriteTo wrote %d bytes (returned %d), differing from the original image of %d bytes at offset %d", len(wr.Buf), n, len(ws.Bytes), firstDiff(wr.Buf, ws.Bytes))}
		}
	}
	if nestedErr != nil {
		return r, fmt.Errorf("nested operation: %w", nestedErr)
	}
	return r, nil
}

func bytesEq(a, b []byte) bool {
	if len(a) != len(b) {
		return false
	}
	for i := range a {
		if a[i] != b[i] {
			return false
		}
	}
	return true
}

// DiffRRes compares a delivered result with the expected one.
func DiffRRes(got, want *RRes) string {
	if reflect.DeepEqual(normRRes(got), normRRes(want)) {
		return ""
	}
	return fmt.Sprintf("got %s want %s", got.String(), want.String())
}

func normRRes(r *RRes) *RRes {
	if r == nil {
		return nil
	}
	b, _ := json.Marshal(r)
	out := &RRes{}
	_ = json.Unmarshal(b, out)
	return out
}

// PrefixRRes checks what an operation had delivered when it stopped early
// (a call reported an error): everything delivered must be a prefix of the
// right result - complete lists for the documents visited before the failing
// call, a prefix for the document the failing call was visiting.
func PrefixRRes(got, want *RRes) string {
	if got == nil || want == nil {
		return ""
	}
	if len(got.Terms) > len(want.Terms) {
		return fmt.Sprintf("%d dictionary entries delivered, the field has %d", len(got.Terms), len(want.Terms))
	}
	for i := range got.Terms {
		if !bytesEq(got.Terms[i].Term, want.Terms[i].Term) || got.Terms[i].Count != want.Terms[i].Count {
			return fmt.Sprintf("dictionary entry #%d: got %q/%d want %q/%d", i, string(got.Terms[i].Term), got.Terms[i].Count, string(want.Terms[i].Term), want.Terms[i].Count)
		}
	}
	if len(got.Posts) > len(want.Posts) {
		return fmt.Sprintf("%d postings delivered, the list has %d", len(got.Posts), len(want.Posts))
	}
	for i := range got.Posts {
		if d := model.DiffPost(&got.Posts[i], &want.Posts[i]); d != "" {
			return fmt.Sprintf("posting #%d %s", i, d)
		}
	}
	if len(got.FVs) > len(want.FVs) {
		return fmt.Sprintf("values of %d documents delivered, %d were visited", len(got.FVs), len(want.FVs))
	}
	for i := range got.FVs {
		g, w := got.FVs[i], want.FVs[i]
		if i < len(got.FVs)-1 {
			if d := model.DiffFV(g, w); d != "" {
				return fmt.Sprintf("visited document #%d: %s", i, d)
			}
			continue
		}
		if len(g) > len(w) {
			return fmt.Sprintf("visited document #%d: %d values delivered, it has %d", i, len(g), len(w))
		}
		if d := model.DiffFV(g, w[:len(g)]); d != "" {
			return fmt.Sprintf("visited document #%d: %s", i, d)
		}
	}
	if got.Nested != nil && want.Nested != nil {
		return PrefixRRes(got.Nested, want.Nested)
	}
	return ""
}
