package sim

import (
	"bytes"
	"fmt"
	"strings"

	"github.com/RoaringBitmap/roaring"
	segment "github.com/blugelabs/bluge_segment_api"
	"pgregory.net/rapid"

	"icesim/model"
)

// Scenario "merge-read-fault" (C19, C12): a merge is a reader of its inputs.
// File-backed inputs (often with several 128-document stored blocks and
// multi-chunk postings) are loaded afresh, the fault-free merge fixes the
// reference bytes B and the number of input storage reads R; then the storage
// of the inputs fails at sampled read positions - once (transient) or from
// then on (persistent). The merge must report an error, or - when the fault
// did not matter - deliver exactly B. Success with other bytes is silent
// corruption.

type MergeFaultCase struct {
	Merge  *MergeDef `json:"merge"`
	Mode   uint32    `json:"mode"`
	Sample int       `json:"sample"`
}

func init() {
	register(&Scenario{
		Name: "merge-read-fault",
		Rule: "one case = one merge over freshly loaded file-backed inputs; up to Sample evenly spread input-read positions x {one failing read, failing from then on} x rotating error kinds; non-trivial = the fault-free merge performs >= 20 input reads and some input has > 128 documents or a deletion; distinct = distinct case JSON",
		Gen: func(t *rapid.T, prop string) *Case {
			o := WorldOpts{NoExtremes: true, MinBuilds: 1, MaxBuilds: 3, BigPct: 40, HugePct: 0, MaxTinyDocs: 6, Stores: []string{StoreFile}, MoreDV: true}
			wd := GenWorld(t, o)
			mc := &MergeFaultCase{Merge: genMergeDef(t, len(wd.Segs)), Mode: rapid.SampledFrom(chunkModes).Draw(t, "mode"), Sample: rapid.IntRange(12, 36).Draw(t, "sample")}
			return &Case{World: wd, MFault: mc}
		},
		Run: runMergeFaultCase,
	})
}

func runMergeFaultCase(c *Case, env *Env) *Result {
	res := &Result{}
	sched := NewSched(nil)
	defer res.absorb(sched)
	w, fail := BuildWorldFor(env.Prop, c.World, sched)
	if fail != nil {
		res.Fail = fail
		return res
	}
	res.Shape = worldShape(w)
	mc := c.MFault
	inputs := w.ResolveInputs(len(w.Segs), mc.Merge)
	if len(inputs) == 0 {
		return res
	}
	var drops []*roaring.Bitmap
	big := false
	for k, in := range inputs {
		bm, _ := MakeDrops(dropOf(mc.Merge, k), len(in.Docs))
		drops = append(drops, bm)
		if len(in.Docs) > 128 || (bm != nil && !bm.IsEmpty()) {
			big = true
		}
	}
	desc := fmt.Sprintf("merge of %d file-backed inputs (public=%v, chunk mode %d)", len(inputs), mc.Merge.Public, mc.Mode)

	budget := 0 // set once the fault-free run has counted the reads
	// one execution: fresh loads, a global read counter over all inputs
	exec := func(fault *ReadFault) (buf []byte, err error, pi *PanicInfo, reads, fired int) {
		Heartbeat()
		var segs []segment.Segment
		var ras []*SimReaderAt
		plan := &GlobalFaultPlan{Fault: fault}
		for _, in := range inputs {
			seg, _, ra, lpi, lerr := LoadView(in.Bytes, StoreFile, sched)
			if lpi != nil || lerr != nil {
				return nil, lerr, lpi, 0, 0
			}
			segs = append(segs, seg)
			ras = append(ras, ra)
		}
		for _, ra := range ras {
			ra := ra
			if fault != nil && budget > 0 {
				ra.Budget = budget // a merge that keeps re-reading a failing input is cut off
				ra.Mark()
			}
			// the plan is expressed in terms of the global read index over all inputs
			ra.FaultFn = plan.Decide
		}
		wr := NewSimWriter(sched)
		_, _, pi, err = RunMerge(mc.Merge, mc.Mode, segs, drops, wr, nil)
		for _, ra := range ras {
			fired += ra.FiredCount()
		}
		res.SubRuns++
		res.Events += plan.Reads()
		return wr.Buf, err, pi, plan.Reads(), fired
	}

	B, err, pi, R, _ := exec(nil)
	if pi != nil || err != nil {
		res.Fail = apiFail("C02", "world", desc+" (fault-free)", pi, err)
		return res
	}
	// B must be a correct merge (so that "equals B" means correct)
	loaded, _, _, lpi, lerr := LoadView(B, StoreMem, sched)
	if lpi != nil || lerr != nil {
		res.Fail = apiFail("C04", "world", "Load(fault-free merge output)", lpi, lerr)
		return res
	}
	var docs []model.SDoc
	var lists [][]string
	for k, in := range inputs {
		_, dropped := MakeDrops(dropOf(mc.Merge, k), len(in.Docs))
		for j := range in.Docs {
			if !dropped[j] {
				docs = append(docs, in.Docs[j])
			}
		}
		lists = append(lists, in.Fields)
	}
	got, f := Observe("C02", loaded, ObsOpts{SkipStats: true})
	if f != nil {
		res.Fail = f
		return res
	}
	if d := model.Diff(got, model.Expect(docs, model.UnionFields(lists...), model.Merged, w.DV), "stats", "counts"); d != "" {
		res.Fail = mismatch("C02", "model", sectionOf(d), "fault-free merge output: "+d)
		return res
	}
	budget = 20*R + 2000
	res.NonTrivial = R >= 20 && big
	res.probeN("fault-free-input-reads", R)

	stride := 1
	if R > mc.Sample {
		stride = R / mc.Sample
	}
	// positions: the first reads densely (the stored-field phase comes first and
	// reads little), then evenly spread
	var positions []int
	for j := 0; j < R && j < 12; j++ {
		positions = append(positions, j)
	}
	for j := 12; j < R; j += stride {
		positions = append(positions, j)
	}
	for _, j := range positions {
		for _, count := range []int{1, 0} {
			kind := (j + count) % NumReadFaultKinds
			buf, err, pi, _, fired := exec(&ReadFault{From: j, Count: count, Kind: kind})
			name := ReadFaultNames[kind] + map[int]string{1: "-once", 0: "-persistent"}[count]
			res.fault("merge-input-"+name, 1, fired)
			label := fmt.Sprintf("%s: input storage fails (%s) at read %d of %d", desc, name, j, R)
			if pi != nil {
				k := "panic"
				if strings.Contains(pi.Msg, "livelock:") {
					k = "hang"
				}
				res.Fail = &Fail{Prop: "C19", Oracle: "merge-read-fault", Kind: k, Site: pi.Site, Detail: label + ": panic: " + pi.Msg}
				return res
			}
			if err == nil && !bytes.Equal(buf, B) {
				res.Fail = &Fail{Prop: "C19", Oracle: "merge-read-fault", Kind: "silent-success", Site: "merge", Detail: fmt.Sprintf("%s: the merge reported success but wrote %d bytes that differ from the %d bytes of the fault-free merge at offset %d", label, len(buf), len(B), firstDiff(buf, B))}
				return res
			}
			if err != nil {
				res.probe("merge-reported-the-read-error")
			} else {
				res.probe("fault-did-not-matter-identical-output")
			}
		}
	}
	return res
}
