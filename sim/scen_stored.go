package sim

import (
	"encoding/binary"
	"fmt"

	"pgregory.net/rapid"

	"icesim/model"
)

// Scenario "stored" (C06): sequences of VisitStoredFields calls on one
// segment object (the decompression buffer kept between calls makes the
// visit order part of the input), with early-stopping visitors and document
// numbers at and beyond Count.

type StoredVisit struct {
	Doc  int `json:"doc"`            // reduced modulo Count unless Over is set
	Over int `json:"over,omitempty"` // 1: n=Count, 2: n=Count+1, 3: n huge, 4: 2^32+doc, 5: 5*2^32+doc, 6: 2^63+doc
	Stop int `json:"stop,omitempty"` // >0: the visitor returns false at its Stop-th invocation
	Nest int `json:"nest,omitempty"` // >0: the first callback visits document (Nest-1) mod Count itself (a visitor that looks up another document)
}

type VisitCase struct {
	Seg    int           `json:"seg"`
	Visits []StoredVisit `json:"visits"`
}

func init() {
	register(&Scenario{
		Name: "stored",
		Rule: "non-trivial = the visited segment has >128 documents (several compressed blocks), or a record that starts within 10 bytes of the end of its block, or documents without any stored value, or an early-stopping visitor with >=2 values; distinct = distinct case JSON",
		Gen:  genStoredCase,
		Run:  runStoredCase,
	})
}

func genStoredCase(t *rapid.T, prop string) *Case {
	o := WorldOpts{MinBuilds: 1, MaxBuilds: 2, MaxMerges: 2, BigPct: 35, HugePct: 5, AllowNoID: true, NoIDPct: 35, FewFields: rapid.IntRange(0, 1).Draw(t, "few") == 0}
	wd := GenWorld(t, o)
	vc := &VisitCase{Seg: rapid.IntRange(0, 7).Draw(t, "seg")}
	nv := rapid.IntRange(1, 24).Draw(t, "nvisits")
	for i := 0; i < nv; i++ {
		v := StoredVisit{}
		switch rapid.IntRange(0, 9).Draw(t, "vkind") {
		case 0:
			v.Over = rapid.IntRange(1, 6).Draw(t, "over")
			v.Doc = rapid.IntRange(0, 300).Draw(t, "overdoc")
		case 1, 2:
			// the last documents of the segment / of a block
			v.Doc = -1 - rapid.IntRange(0, 3).Draw(t, "fromend")
		case 3:
			v.Doc = rapid.SampledFrom([]int{0, 126, 127, 128, 129, 254, 255, 256, 257}).Draw(t, "edge")
		default:
			v.Doc = rapid.IntRange(0, 2200).Draw(t, "doc")
		}
		if rapid.IntRange(0, 5).Draw(t, "stop") == 0 {
			v.Stop = rapid.IntRange(1, 3).Draw(t, "stopat")
		}
		if rapid.IntRange(0, 5).Draw(t, "nest") == 0 {
			v.Nest = 1 + rapid.SampledFrom([]int{0, 1, 127, 128, 129, 200, 255, 256, 300, 2000}).Draw(t, "nestdoc")
		}
		vc.Visits = append(vc.Visits, v)
	}
	return &Case{World: wd, Visits: vc}
}

func uvarintLen(x uint64) int {
	var b [binary.MaxVarintLen64]byte
	return binary.PutUvarint(b[:], x)
}

// shortTailDocs returns how many documents of the segment have a stored
// record starting within 10 bytes of the end of their 128-document block.
// It mirrors the documented record layout and is used for probes only.
func shortTailDocs(ws *WSeg) (short int, noStored int) {
	exp := ws.Exp()
	fieldID := map[string]int{}
	for i, f := range exp.Fields {
		fieldID[f] = i
	}
	const block = 128
	for b := 0; b*block < len(exp.Stored); b++ {
		var starts []int
		off := 0
		for d := b * block; d < len(exp.Stored) && d < (b+1)*block; d++ {
			starts = append(starts, off)
			meta, data := 0, 0
			for _, fv := range exp.Stored[d] {
				meta += uvarintLen(uint64(fieldID[fv.F])) + uvarintLen(uint64(data)) + uvarintLen(uint64(len(fv.V)))
				data += len(fv.V)
			}
			if len(exp.Stored[d]) == 0 {
				noStored++
			}
			off += uvarintLen(uint64(meta)) + uvarintLen(uint64(data)) + meta + data
		}
		for _, s := range starts {
			if off-s < 10 {
				short++
			}
		}
	}
	return
}

func runStoredCase(c *Case, env *Env) *Result {
	res := &Result{SubRuns: 1}
	sched := NewSched(nil)
	defer res.absorb(sched)
	w, fail := BuildWorldFor(env.Prop, c.World, sched)
	if fail != nil {
		res.Fail = fail
		return res
	}
	res.Shape = worldShape(w)
	vc := c.Visits
	ws := w.Segs[vc.Seg%len(w.Segs)]
	exp := ws.Exp()
	cnt := len(ws.Docs)
	short, noStored := shortTailDocs(ws)
	res.probeN("record-within-10-bytes-of-block-end", short)
	res.probeN("document-without-stored-values", noStored)
	if cnt > 128 {
		res.probe("multi-block-segment")
	}
	if ws.Kind == model.Merged {
		res.probe("merged-segment")
	}
	res.NonTrivial = cnt > 128 || short > 0 || noStored > 0

	for vi, v := range vc.Visits {
		var n uint64
		var want []model.FV
		switch {
		case v.Over == 1:
			n = uint64(cnt)
		case v.Over == 2:
			n = uint64(cnt) + 1
		case v.Over == 3:
			n = 1<<40 + 12345
		case v.Over >= 4:
			// beyond Count, but the low 32 bits name an existing document
			low := uint64(0)
			if cnt > 0 {
				low = uint64(v.Doc % cnt)
			}
			n = []uint64{1 << 32, 5 << 32, 1 << 63}[v.Over-4] + low
		case cnt == 0:
			n = 0 // == Count: nothing
		default:
			d := v.Doc
			if d < 0 {
				d = cnt + d%cnt
				if d >= cnt {
					d = cnt - 1
				}
			}
			n = uint64(d % cnt)
			want = exp.Stored[n]
		}
		if v.Over != 0 {
			res.probe("visit-beyond-count")
		}
		stopAt := v.Stop
		if stopAt > 0 && len(want) >= stopAt {
			want = want[:stopAt]
			if len(exp.Stored) > int(n) && n < uint64(cnt) && len(exp.Stored[n]) >= 2 {
				res.probe("early-stop")
				res.NonTrivial = true
			}
		}
		var got []model.FV
		var err error
		calls := 0
		stoppedButCalled := false
		stopped := false
		nested := false
		nestFail := ""
		pi := Guard(func() {
			err = ws.Seg.VisitStoredFields(n, func(field string, value []byte) bool {
				if stopped {
					stoppedButCalled = true
				}
				calls++
				if calls == 1 && v.Nest > 0 && cnt > 0 {
					// the visitor looks at another document before it reads its own value
					nn := uint64((v.Nest - 1) % cnt)
					var inner []model.FV
					nerr := ws.Seg.VisitStoredFields(nn, func(f2 string, v2 []byte) bool {
						inner = append(inner, model.FV{F: f2, V: append(model.Bytes{}, v2...)})
						return true
					})
					if nerr != nil {
						nestFail = fmt.Sprintf("nested VisitStoredFields(%d): %v", nn, nerr)
					} else if d := model.DiffFV(inner, exp.Stored[nn]); d != "" {
						nestFail = fmt.Sprintf("nested VisitStoredFields(%d): %s", nn, d)
					}
					nested = true
				}
				got = append(got, model.FV{F: field, V: append(model.Bytes{}, value...)})
				if stopAt > 0 && calls >= stopAt {
					stopped = true
					return false
				}
				return true
			})
		})
		where := fmt.Sprintf("seg %d (%s, %d docs) visit #%d VisitStoredFields(%d)", ws.Idx, ws.Def.Store, cnt, vi, n)
		if pi != nil {
			res.Fail = &Fail{Prop: "C06", Oracle: "stored", Kind: "panic", Site: pi.Site, Detail: where + " panicked: " + pi.Msg}
			return res
		}
		if err != nil {
			res.Fail = &Fail{Prop: "C06", Oracle: "stored", Kind: "error", Site: "VisitStoredFields", Detail: fmt.Sprintf("%s: %v", where, err)}
			return res
		}
		if nested {
			res.probe("nested-visit-from-visitor")
			res.NonTrivial = true
		}
		if nestFail != "" {
			res.Fail = mismatch("C06", "stored", "nested-values", where+": "+nestFail)
			return res
		}
		if stoppedButCalled {
			res.Fail = mismatch("C06", "stored", "stop", where+": visitor invoked again after it returned false")
			return res
		}
		if d := model.DiffFV(got, want); d != "" {
			site := "values"
			if n >= uint64(cnt) {
				site = "beyond-count"
			}
			res.Fail = mismatch("C06", "stored", site, where+": "+d)
			return res
		}
	}
	return res
}
