package sim

import (
	"bytes"
	"fmt"
	"os"
	"strings"
	"time"

	"github.com/RoaringBitmap/roaring"
	segment "github.com/blugelabs/bluge_segment_api"
	"pgregory.net/rapid"

	"icesim/model"
)

// Scenario "concurrent" (C09): 2-5 tasks read one freshly loaded segment
// under a schedule that switches at every seam (storage reads of a
// file-backed view, visitor callbacks, operation boundaries); optionally one
// task merges that segment at the same time, and visitors re-enter the
// segment. Each operation must deliver exactly its solo result; in the -race
// build of the same cases no race report may contain an ice frame.

type ConcMerge struct {
	Others []int  `json:"others,omitempty"` // further inputs (world segment indices)
	Drop   Drop   `json:"drop"`             // deletions applied to the shared segment
	Mode   uint32 `json:"mode"`
	Public bool   `json:"public,omitempty"`
	Buf    int    `json:"buf,omitempty"`
	Twin   bool   `json:"twin,omitempty"` // a second task runs the same merge at the same time
}

// ConcPrelude: before the tasks start, a merge over freshly loaded file-backed
// copies of some world segments runs into a storage fault (a fault history:
// whatever a failed operation leaves behind in pools and caches is then met
// by the concurrent phase).
type ConcPrelude struct {
	Inputs    []int `json:"inputs"`
	FaultFrom int   `json:"fault_from"` // storage read (counted from the start of the merge) at which the first input starts failing
	Kind      int   `json:"kind"`
	// CancelAt > 0: instead of a storage fault the merge is cancelled (close
	// channel closed) at its CancelAt-th write or input read
	CancelAt int `json:"cancel_at,omitempty"`
}

type ConcCase struct {
	Prelude *ConcPrelude `json:"prelude,omitempty"`
	Seg     int          `json:"seg"`
	File    bool         `json:"file,omitempty"` // shared view is file-backed (every storage read is a yield point)
	Tasks   [][]ROp      `json:"tasks"`
	Reuse   []bool       `json:"reuse,omitempty"` // per task: keep one postings list/iterator and pass it as prealloc
	Merge   *ConcMerge   `json:"merge,omitempty"`
	// Build: one more task builds the batch of a world segment again with New
	// while the others read and merge (builder, merger and readers share the
	// compression helpers and package-level state); its bytes must equal the
	// bytes of the build done alone. 0: none, k>0: world segment (k-1) mod len.
	Build int `json:"build,omitempty"`
	// UnderLock: yield points reached while a segment lock is held are NOT
	// skipped. A task may then be parked inside a critical section (the window
	// a lock-free fast path of another task can see half-published state in);
	// if the next task needs that lock the scheduler notices it blocked and lets
	// everything run freely for the rest of the run (sched.go).
	UnderLock bool `json:"under_lock,omitempty"`
	// Fault: the shared (file-backed) view's storage fails for a few reads during
	// the concurrent phase (index relative to its start). Operations may then
	// fail; what is checked is that nobody panics or hangs (a task waiting for
	// another task's failed load), that nothing races, that no lock stays held
	// and that the segment reads right afterwards.
	Fault *ReadFault `json:"fault,omitempty"`
}

func init() {
	register(&Scenario{
		Name: "concurrent",
		Rule: "non-trivial = >=2 tasks, >=1 task switch actually taken while another task was inside an ice call (or a re-entrant nested read, or a concurrent merge), on a segment with >=1 document; distinct = distinct case JSON (the schedule is part of the case)",
		Gen:  genConcCase,
		Run:  runConcCase,
	})
}

func genConcCase(t *rapid.T, prop string) *Case {
	o := WorldOpts{MinBuilds: 1, MaxBuilds: 2, MaxMerges: 1, BigPct: 8, HugePct: 10, MaxTinyDocs: 8, MoreDV: true}
	wd := GenWorld(t, o)
	cc := &ConcCase{Seg: rapid.IntRange(0, 5).Draw(t, "seg"), File: rapid.IntRange(0, 2).Draw(t, "file") != 0}
	nt := rapid.IntRange(2, 4).Draw(t, "ntasks")
	for i := 0; i < nt; i++ {
		n := rapid.IntRange(1, 4).Draw(t, "nops")
		var prog []ROp
		for j := 0; j < n; j++ {
			prog = append(prog, genROp(t, true))
		}
		cc.Tasks = append(cc.Tasks, prog)
		cc.Reuse = append(cc.Reuse, rapid.IntRange(0, 1).Draw(t, "reuse") == 1)
	}
	if rapid.IntRange(0, 2).Draw(t, "withmerge") == 0 {
		m := &ConcMerge{Drop: genDrop(t), Mode: rapid.SampledFrom(chunkModes).Draw(t, "mode"), Public: rapid.IntRange(0, 1).Draw(t, "public") == 0,
			Buf: rapid.SampledFrom([]int{1, 2, 7, 64}).Draw(t, "buf")}
		k := rapid.IntRange(0, 2).Draw(t, "nothers")
		for i := 0; i < k; i++ {
			m.Others = append(m.Others, rapid.IntRange(0, 5).Draw(t, "other"))
		}
		m.Twin = rapid.IntRange(0, 3).Draw(t, "twinmerge") == 0
		cc.Merge = m
	}
	if rapid.IntRange(0, 3).Draw(t, "withbuilder") == 0 {
		cc.Build = 1 + rapid.IntRange(0, 3).Draw(t, "buildseg")
	}
	if rapid.IntRange(0, 2).Draw(t, "prelude") == 0 {
		p := &ConcPrelude{FaultFrom: rapid.IntRange(0, 40).Draw(t, "faultfrom"), Kind: rapid.IntRange(0, NumReadFaultKinds-1).Draw(t, "faultkind")}
		k := rapid.IntRange(1, 2).Draw(t, "nprelude")
		for i := 0; i < k; i++ {
			p.Inputs = append(p.Inputs, rapid.IntRange(0, 5).Draw(t, "pin"))
		}
		if rapid.IntRange(0, 2).Draw(t, "prelude-cancel") == 0 {
			p.CancelAt = 1 + rapid.IntRange(0, 60).Draw(t, "cancelat")
		}
		cc.Prelude = p
	}
	cc.UnderLock = rapid.IntRange(0, 3).Draw(t, "underlock") == 0
	if cc.File && rapid.IntRange(0, 4).Draw(t, "concfault") == 0 {
		cc.Fault = &ReadFault{From: rapid.IntRange(0, 30).Draw(t, "cf-from"), Count: rapid.IntRange(1, 3).Draw(t, "cf-count"), Kind: rapid.IntRange(0, NumReadFaultKinds-1).Draw(t, "cf-kind")}
	}
	return &Case{World: wd, Conc: cc, Sched: genSchedule(t, 40)}
}

type taskOut struct {
	results []*RRes
	errs    []error
	panics  []*PanicInfo
	done    int
}

func runConcCase(c *Case, env *Env) *Result {
	res := &Result{SubRuns: 1}
	sched := NewSched(c.Sched)
	sched.ParkUnderLock = c.Conc.UnderLock
	defer res.absorb(sched)
	w, fail := BuildWorldFor(env.Prop, c.World, sched)
	if fail != nil {
		res.Fail = fail
		return res
	}
	res.Shape = worldShape(w)
	cc := c.Conc
	ws := w.Segs[cc.Seg%len(w.Segs)]
	ws.Exp() // compute before tasks start

	if p := cc.Prelude; p != nil {
		sched.Hold()
		var psegs []segment.Segment
		var pdrops []*roaring.Bitmap
		var firstRA *SimReaderAt
		ok := true
		for i, in := range p.Inputs {
			x := w.Segs[in%len(w.Segs)]
			seg, _, ra, pi, err := LoadView(x.Bytes, StoreFile, sched)
			if pi != nil || err != nil {
				ok = false
				break
			}
			if i == 0 {
				firstRA = ra
			}
			psegs = append(psegs, seg)
			// a deletion in every input: the merge takes the per-document path
			bm := roaring.New()
			if len(x.Docs) > 1 {
				bm.Add(uint32(len(x.Docs) - 1))
			}
			pdrops = append(pdrops, bm)
		}
		if ok && firstRA != nil {
			wr := NewSimWriter(sched)
			var closeCh chan struct{}
			if p.CancelAt > 0 {
				closeCh = make(chan struct{})
				tk := NewTicker(p.CancelAt-1, closeCh, sched)
				wr.OnWrite = tk.OnWrite
				firstRA.OnRead = tk.OnRead
				res.probe("prelude-merge-cancelled")
			} else {
				firstRA.SetFault(&ReadFault{From: firstRA.Calls() + p.FaultFrom, Kind: p.Kind})
			}
			_, _, pi, err := RunMerge(&MergeDef{Public: true, Buf: 64}, 1025, psegs, pdrops, wr, closeCh)
			firstRA.OnRead = nil
			if pi != nil {
				sched.Release()
				res.Fail = &Fail{Prop: "C19", Oracle: "read-fault", Kind: "panic", Site: pi.Site, Detail: fmt.Sprintf("a merge whose input storage fails from read %d on (or which is cancelled at event %d) panicked: %s", p.FaultFrom, p.CancelAt, pi.Msg)}
				return res
			}
			if err != nil {
				res.probe("prelude-merge-failed-on-storage-fault")
			} else {
				res.probe("prelude-merge-completed")
			}
		}
		sched.Release()
	}
	store := StoreMem
	if cc.File {
		store = StoreFile
	}
	sched.Hold()
	shared, _, sharedRA, pi, err := LoadView(ws.Bytes, store, sched)
	sched.Release()
	if pi != nil || err != nil {
		res.Fail = apiFail("C04", "world", "Load(shared view)", pi, err)
		return res
	}
	sched.WatchMutexes(shared)
	ws.SizeAlone = shared.Size()

	// solo merge output (on a private copy, so the shared view's caches stay cold)
	var mergeSegs []segment.Segment
	var mergeDrops []*roaring.Bitmap
	var wantMerge []byte
	if cc.Merge != nil {
		sched.Hold()
		private, _, _, pi, err := LoadView(ws.Bytes, StoreMem, sched)
		if pi != nil || err != nil {
			sched.Release()
			res.Fail = apiFail("C04", "world", "Load(private view)", pi, err)
			return res
		}
		bm, _ := MakeDrops(&cc.Merge.Drop, len(ws.Docs))
		soloSegs := []segment.Segment{private}
		mergeSegs = []segment.Segment{shared}
		mergeDrops = []*roaring.Bitmap{bm}
		for _, o := range cc.Merge.Others {
			x := w.Segs[o%len(w.Segs)]
			soloSegs = append(soloSegs, x.Seg)
			mergeSegs = append(mergeSegs, x.Seg)
			mergeDrops = append(mergeDrops, nil)
		}
		wr := NewSimWriter(sched)
		_, _, pi, err = RunMerge(&MergeDef{Public: cc.Merge.Public, Buf: cc.Merge.Buf}, cc.Merge.Mode, soloSegs, mergeDrops, wr, nil)
		sched.Release()
		if pi != nil || err != nil {
			res.Fail = apiFail("C02", "world", "solo merge", pi, err)
			return res
		}
		wantMerge = wr.Buf
		res.probe("concurrent-merge")
	}

	outs := make([]*taskOut, len(cc.Tasks))
	var bodies []func(int)
	nested := 0
	for ti := range cc.Tasks {
		ti := ti
		outs[ti] = &taskOut{}
		for _, op := range cc.Tasks[ti] {
			if op.Nest != nil {
				nested++
			}
		}
		hooks := &ropHooks{sched: sched, reuse: ti < len(cc.Reuse) && cc.Reuse[ti]}
		bodies = append(bodies, func(int) {
			out := outs[ti]
			for oi := range cc.Tasks[ti] {
				var r *RRes
				var err error
				pi := Guard(func() { r, err = ExecROp(ws, shared, &cc.Tasks[ti][oi], hooks) })
				out.results = append(out.results, r)
				out.errs = append(out.errs, err)
				out.panics = append(out.panics, pi)
				out.done++
				sched.Yield(evOpBoundary, uint64(oi))
			}
		})
	}
	var mergeGot []byte
	var mergeErr error
	var mergePanic *PanicInfo
	var twinGot []byte
	var twinErr error
	var twinPanic *PanicInfo
	twin := false
	if cc.Merge != nil {
		bodies = append(bodies, func(int) {
			wr := NewSimWriter(sched)
			_, _, mergePanic, mergeErr = RunMerge(&MergeDef{Public: cc.Merge.Public, Buf: cc.Merge.Buf}, cc.Merge.Mode, mergeSegs, mergeDrops, wr, nil)
			mergeGot = wr.Buf
		})
		if cc.Merge.Twin && len(bodies) < maxTasks-1 {
			// two merges of the same inputs at once (the same segment in two
			// overlapping merge plans of the index layer)
			twin = true
			twinDrops := make([]*roaring.Bitmap, len(mergeDrops))
			for i, d := range mergeDrops {
				if d != nil {
					twinDrops[i] = d.Clone()
				}
			}
			bodies = append(bodies, func(int) {
				wr := NewSimWriter(sched)
				_, _, twinPanic, twinErr = RunMerge(&MergeDef{Public: cc.Merge.Public, Buf: cc.Merge.Buf}, cc.Merge.Mode, mergeSegs, twinDrops, wr, nil)
				twinGot = wr.Buf
			})
			res.probe("two-concurrent-merges-of-one-segment")
		}
	}
	var buildGot, buildWant []byte
	var buildErr error
	var buildPanic *PanicInfo
	if cc.Build > 0 {
		bws := w.Segs[(cc.Build-1)%len(w.Segs)]
		if bws.Kind == model.Built && len(bws.Docs) <= 300 {
			buildWant = bws.Bytes
			PreBuild(IceImpl, len(bws.Docs))
			bodies = append(bodies, func(int) {
				buildGot, buildErr, buildPanic = buildBytes(bws.Def, bws.Idx, w.DV, sched)
			})
			res.probe("concurrent-builder")
		}
	}
	res.probeN("re-entrant-nested-op", nested)
	if cc.Fault != nil && sharedRA != nil {
		f := *cc.Fault
		f.From += sharedRA.Calls()
		sharedRA.SetFault(&f)
	}
	if h := sched.Run(bodies, 30*time.Second); h != nil {
		if h.MutexBlocked {
			res.Fail = &Fail{Prop: "C09", Oracle: "concurrent", Kind: "hang", Site: "sync.Mutex.Lock", Detail: "a task blocked forever inside ice\n" + h.Dump}
			return res
		}
		panic(&HarnessPanic{Msg: "concurrent run hung outside ice", Stack: h.Dump})
	}
	if sched.Switches > 0 && len(ws.Docs) > 0 {
		res.NonTrivial = true
	}
	if (nested > 0 || cc.Merge != nil) && len(ws.Docs) > 0 {
		res.NonTrivial = true
	}

	faulted := false
	if sharedRA != nil {
		faulted = sharedRA.FiredCount() > 0
		sharedRA.SetFault(nil)
		if faulted {
			res.probe("storage-fault-during-the-concurrent-phase")
		}
	}
	// (a)/(b): every operation delivered exactly its solo result
	for ti := range cc.Tasks {
		out := outs[ti]
		for oi := range cc.Tasks[ti] {
			op := &cc.Tasks[ti][oi]
			where := fmt.Sprintf("task %d op #%d (%s%s) on seg %d (%s, %d docs), %d switches", ti, oi, ROpNames[op.Kind], nestDesc(op), ws.Idx, store, len(ws.Docs), sched.Switches)
			if out.panics[oi] != nil {
				res.Fail = &Fail{Prop: "C09", Oracle: "concurrent", Kind: "panic", Site: out.panics[oi].Site, Detail: where + " panicked: " + out.panics[oi].Msg}
				return res
			}
			if faulted {
				// operations may have failed or come back empty (C19); nothing more is
				// asked of their results here
				continue
			}
			if out.errs[oi] != nil {
				res.Fail = &Fail{Prop: "C09", Oracle: "concurrent", Kind: "error", Site: ROpNames[op.Kind], Detail: fmt.Sprintf("%s failed on healthy storage: %v", where, out.errs[oi])}
				return res
			}
			if d := DiffRRes(out.results[oi], ExpectROp(ws, op)); d != "" {
				res.Fail = mismatch("C09", "concurrent", ROpNames[op.Kind]+nestDesc(op), where+" did not observe what it would observe alone: "+d)
				return res
			}
		}
	}
	if cc.Merge != nil && (mergePanic != nil || twinPanic != nil) {
		pi := mergePanic
		if pi == nil {
			pi = twinPanic
		}
		res.Fail = apiFail("C09", "concurrent", "concurrent merge", pi, nil)
		return res
	}
	if cc.Merge != nil && faulted && (mergeErr != nil || (twin && twinErr != nil)) {
		// a merge that met the storage fault reported it: fine
		res.probe("concurrent-merge-reported-the-storage-fault")
	} else if cc.Merge != nil {
		if mergePanic != nil || mergeErr != nil {
			res.Fail = apiFail("C09", "concurrent", "concurrent merge", mergePanic, mergeErr)
			return res
		}
		if twin {
			if twinPanic != nil || twinErr != nil {
				res.Fail = apiFail("C09", "concurrent", "second concurrent merge", twinPanic, twinErr)
				return res
			}
			if !bytes.Equal(twinGot, wantMerge) {
				res.Fail = mismatch("C09", "concurrent", "merge-output", fmt.Sprintf("the second of two merges of the same segment running at the same time wrote %d bytes differing from the solo output (%d bytes) at offset %d", len(twinGot), len(wantMerge), firstDiff(twinGot, wantMerge)))
				return res
			}
		}
		if !bytes.Equal(mergeGot, wantMerge) {
			res.Fail = mismatch("C09", "concurrent", "merge-output", fmt.Sprintf("a merge running concurrently with %d reader tasks wrote %d bytes differing from its solo output (%d bytes) at offset %d", len(cc.Tasks), len(mergeGot), len(wantMerge), firstDiff(mergeGot, wantMerge)))
			return res
		}
	}
	if buildWant != nil {
		if buildPanic != nil || buildErr != nil {
			res.Fail = apiFail("C14", "build-history", "New concurrently with readers/merger", buildPanic, buildErr)
			return res
		}
		if !bytes.Equal(buildGot, buildWant) {
			res.Fail = mismatch("C14", "build-history", "concurrent", fmt.Sprintf("a batch built while %d reader tasks (and possibly a merge) were running differs from its build alone at byte %d (%d vs %d bytes)", len(cc.Tasks), firstDiff(buildGot, buildWant), len(buildGot), len(buildWant)))
			return res
		}
	}
	if sched.AnyLocked() {
		res.Fail = &Fail{Prop: "C19", Oracle: "read-fault", Kind: "lock", Site: "quiescence", Detail: "a segment mutex is held after all tasks finished"}
		return res
	}
	// (c) race detector
	if f := raceVerdict("C09"); f != nil {
		res.Fail = f
	}
	// the shared segment is unchanged (C15)
	if res.Fail == nil {
		got, f := Observe("C15", shared, ObsOpts{SkipStats: true})
		if f != nil {
			res.Fail = f
		} else if d := model.Diff(got, ws.Exp(), "stats", "counts"); d != "" {
			res.Fail = mismatch("C15", "immutability", "observation:"+sectionOf(d), "after the concurrent run the shared segment reads differently: "+d)
		}
	}
	return res
}

func nestDesc(op *ROp) string {
	if op.Nest != nil {
		return "+nested-" + ROpNames[op.Nest.Kind]
	}
	return ""
}

// ---- race log handling (race build only) ------------------------------------------

var raceLogOffset int64

func raceLogPath() string {
	for _, kv := range strings.Fields(os.Getenv("GORACE")) {
		if strings.HasPrefix(kv, "log_path=") {
			return fmt.Sprintf("%s.%d", strings.TrimPrefix(kv, "log_path="), os.Getpid())
		}
	}
	return ""
}

// raceVerdict returns a violation when the race detector reported a data race
// involving ice code since the last call. Reports with harness-only frames are
// a harness bug.
func raceVerdict(prop string) *Fail {
	if !RaceBuild {
		return nil
	}
	p := raceLogPath()
	if p == "" {
		panic(&HarnessPanic{Msg: "race build needs GORACE=log_path=..."})
	}
	b, err := os.ReadFile(p)
	if err != nil {
		return nil // no report so far
	}
	if int64(len(b)) <= raceLogOffset {
		return nil
	}
	fresh := string(b[raceLogOffset:])
	raceLogOffset = int64(len(b))
	if !strings.Contains(fresh, "DATA RACE") {
		return nil
	}
	if !strings.Contains(fresh, icePkg) {
		panic(&HarnessPanic{Msg: "race report without ice frames (harness race)", Stack: fresh})
	}
	if harnessOnlyRace(fresh) {
		// both racing accesses are made by harness code (say, a hook closure called
		// from two goroutines the code under test started): a harness bug, however
		// many ice frames sit further up the stacks
		panic(&HarnessPanic{Msg: "race between two accesses made by harness code (harness race)", Stack: fresh})
	}
	site := "unknown"
	for _, line := range strings.Split(fresh, "\n") {
		line = strings.TrimSpace(line)
		if strings.HasPrefix(line, icePkg) {
			site = strings.TrimPrefix(line, icePkg)
			if i := strings.Index(site, "("); i > 0 && !strings.HasPrefix(site, "(") {
				site = site[:i]
			} else if i := strings.LastIndex(site, "("); i > 0 {
				site = site[:i]
			}
			break
		}
	}
	if len(fresh) > 5000 {
		fresh = fresh[:5000] + "\n...[trimmed]"
	}
	return &Fail{Prop: prop, Oracle: "race-detector", Kind: "race", Site: site, Detail: "unsynchronised memory access reported by the Go race detector under the serialised schedule:\n" + fresh}
}

// harnessOnlyRace: in every report of the log excerpt, the innermost frame of
// both racing accesses belongs to the harness.
func harnessOnlyRace(log string) bool {
	reports := strings.Split(log, "WARNING: DATA RACE")
	seen := false
	for _, r := range reports[1:] {
		lines := strings.Split(r, "\n")
		tops := 0
		harness := 0
		for i, ln := range lines {
			t := strings.TrimSpace(ln)
			if (strings.HasPrefix(t, "Read at ") || strings.HasPrefix(t, "Write at ") || strings.HasPrefix(t, "Previous read at ") || strings.HasPrefix(t, "Previous write at ") ||
				strings.HasPrefix(t, "Atomic read at ") || strings.HasPrefix(t, "Atomic write at ") || strings.HasPrefix(t, "Previous atomic read at ") || strings.HasPrefix(t, "Previous atomic write at ")) && i+1 < len(lines) {
				tops++
				if strings.HasPrefix(strings.TrimSpace(lines[i+1]), "icesim/") {
					harness++
				}
			}
		}
		if tops == 0 {
			continue
		}
		seen = true
		if harness < tops {
			return false
		}
	}
	return seen
}
