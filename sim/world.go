package sim

import (
	"bufio"
	"fmt"
	"math"
	"os"
	"runtime"

	"github.com/RoaringBitmap/roaring"
	segment "github.com/blugelabs/bluge_segment_api"
	ice "github.com/blugelabs/ice/v2"

	"icesim/model"
)

// ---- case description (JSON-serialisable, PRNG-free) ---------------------------

// Rep is a compact block of N documents cycling through templates.
type Rep struct {
	N    int         `json:"n"`
	Tmpl []model.Doc `json:"tmpl"`
}

type Item struct {
	Doc *model.Doc `json:"doc,omitempty"`
	Rep *Rep       `json:"rep,omitempty"`
}

// Drop describes one deletion bitmap. Docs are reduced modulo the segment's
// document count when the world is built, so any list is valid.
type Drop struct {
	Nil  bool     `json:"nil,omitempty"`
	All  bool     `json:"all,omitempty"`
	Docs []uint32 `json:"docs,omitempty"`
	// Keep > 0: of a segment with more than Keep documents exactly Keep survive
	// (the first n-Keep documents after the first are dropped) - survivor counts
	// that sit exactly on a chunk boundary
	Keep int `json:"keep,omitempty"`
}

type MergeDef struct {
	In     []int  `json:"in"` // indices of earlier segments (reduced modulo own index)
	Drops  []Drop `json:"drops,omitempty"`
	Buf    int    `json:"buf,omitempty"`    // merge buffer size (public path)
	Public bool   `json:"public,omitempty"` // use ice.Merge(...).WriteTo (adaptive chunk mode)
}

const (
	StoreBuilt = "built"
	StoreMem   = "mem"
	StoreFile  = "file"
)

type SegDef struct {
	Batch []Item    `json:"batch,omitempty"`
	Norm  int       `json:"norm,omitempty"`
	NoID  bool      `json:"noid,omitempty"`
	Merge *MergeDef `json:"merge,omitempty"`
	Mode  uint32    `json:"mode"`
	Store string    `json:"store"`
}

// WorldDef is the recipe for all segments of a case.
type WorldDef struct {
	DV   []string `json:"dv,omitempty"` // field names indexed with doc values
	Segs []SegDef `json:"segs"`
}

// ExpandBatch materialises the documents of a build, injects the unique _id
// field and normalises location field names to the batch's field set.
func ExpandBatch(def *SegDef, segIdx int) []model.Doc {
	var docs []model.Doc
	for _, it := range def.Batch {
		if it.Doc != nil {
			docs = append(docs, cloneDoc(it.Doc))
		}
		if it.Rep != nil && len(it.Rep.Tmpl) > 0 {
			for j := 0; j < it.Rep.N; j++ {
				docs = append(docs, cloneDoc(&it.Rep.Tmpl[j%len(it.Rep.Tmpl)]))
			}
		}
	}
	names := map[string]bool{}
	if !def.NoID {
		names[model.IDField] = true
	}
	for i := range docs {
		for j := range docs[i].Fields {
			names[docs[i].Fields[j].Name] = true
		}
	}
	for i := range docs {
		d := &docs[i]
		// ice sizes its location slices by the posting's (summed) frequency: a
		// term that has locations in any instance of a field keeps every
		// instance's frequency in a range that is not a multi-gigabyte request
		withLocs := map[string]bool{}
		for j := range d.Fields {
			for k := range d.Fields[j].Terms {
				if len(d.Fields[j].Terms[k].L) > 0 {
					withLocs[d.Fields[j].Name+"\x00"+string(d.Fields[j].Terms[k].T)] = true
				}
			}
		}
		for j := range d.Fields {
			f := &d.Fields[j]
			for k := range f.Terms {
				t := &f.Terms[k]
				if t.N > 70000+len(t.L) && withLocs[f.Name+"\x00"+string(t.T)] {
					t.N = 70000 + len(t.L)
				}
				if t.N < 1 {
					t.N = 1
				}
				if t.N < len(t.L) {
					t.N = len(t.L)
				}
				for l := range t.L {
					if t.L[l].F != "" && !names[t.L[l].F] {
						t.L[l].F = ""
					}
				}
			}
		}
		if !def.NoID {
			id := DocID(segIdx, i)
			idf := model.Field{Name: model.IDField, Terms: []model.Term{{T: model.Bytes(id), N: 1}}, Val: model.Bytes(id), Store: true}
			d.Fields = append([]model.Field{idf}, d.Fields...)
		}
	}
	return docs
}

func DocID(segIdx, docIdx int) string { return fmt.Sprintf("s%dd%d", segIdx, docIdx) }

func cloneDoc(d *model.Doc) model.Doc {
	out := model.Doc{Fields: make([]model.Field, len(d.Fields))}
	for i, f := range d.Fields {
		nf := f
		nf.Terms = make([]model.Term, len(f.Terms))
		for j, t := range f.Terms {
			nt := t
			nt.L = append([]model.Loc(nil), t.L...)
			nf.Terms[j] = nt
		}
		// terms must be distinct within one field instance (analyzer contract)
		seen := map[string]bool{}
		w := 0
		for _, t := range nf.Terms {
			if !seen[string(t.T)] {
				seen[string(t.T)] = true
				nf.Terms[w] = t
				w++
			}
		}
		nf.Terms = nf.Terms[:w]
		out.Fields[i] = nf
	}
	return out
}

// ---- built world -----------------------------------------------------------------

type WSeg struct {
	Idx    int
	Def    *SegDef
	Seg    segment.Segment // the view later users see (built / mem / file)
	Orig   segment.Segment // builds: the object New returned
	Bytes  []byte          // pristine persisted image
	Mem    []byte          // the copy a mem-loaded view is backed by
	RA     *SimReaderAt    // file views
	Docs   []model.SDoc    // model content in document order
	Fields []string        // expected field list
	Kind   model.Kind
	// merges
	Inputs    []*WSeg
	Drops     []*roaring.Bitmap
	DocNums   [][]uint64 // as reported by the merger
	WantNums  [][]uint64 // as the model expects
	MergeRet  int64
	NewSize   uint64
	WriteRet  int64 // return value of the WriteTo that produced Bytes
	SizeAlone int   // Size() of the view a scenario shares between tasks, measured before they start
	exp       *model.Obs
	dv        map[string]bool
}

// Exp returns (and caches) the model's expectation for this segment.
func (s *WSeg) Exp() *model.Obs {
	if s.exp == nil {
		s.exp = model.Expect(s.Docs, s.Fields, s.Kind, s.dv)
	}
	return s.exp
}

// Impl is one implementation of the segment format: the code under test
// (/repo) or the frozen reference copy (/verif/refice).
type Impl struct {
	Name  string
	New   func(docs []segment.Document, norm func(string, int) float32, mode uint32) (segment.Segment, uint64, error)
	Load  func(d *segment.Data) (segment.Segment, error)
	Merge func(md *MergeDef, mode uint32, segs []segment.Segment, drops []*roaring.Bitmap, w *SimWriter, closeCh chan struct{}) ([][]uint64, int64, error)
}

// IceImpl is the code under test.
var IceImpl = &Impl{
	Name: "current",
	New:  ice.VerifNew,
	Load: ice.Load,
	Merge: func(md *MergeDef, mode uint32, segs []segment.Segment, drops []*roaring.Bitmap, wr *SimWriter, closeCh chan struct{}) ([][]uint64, int64, error) {
		if md.Public {
			m := ice.Merge(segs, drops, md.Buf)
			ret, err := m.WriteTo(wr, closeCh)
			return m.DocumentNumbers(), ret, err
		}
		nums, n, err := ice.VerifMerge(segs, drops, wr, mode, closeCh)
		return nums, int64(n), err
	},
}

type World struct {
	Impl  *Impl
	Def   *WorldDef
	DV    map[string]bool
	Segs  []*WSeg
	Sched *Sched
	Prop  string
}

// MakeDrops turns a Drop into a bitmap over n documents and the survivor mask.
func MakeDrops(d *Drop, n int) (*roaring.Bitmap, []bool) {
	dropped := make([]bool, n)
	if d == nil || d.Nil {
		return nil, dropped
	}
	bm := roaring.New()
	if n > 0 {
		if d.All {
			bm.AddRange(0, uint64(n))
			for i := range dropped {
				dropped[i] = true
			}
		}
		for _, x := range d.Docs {
			bm.Add(x % uint32(n))
			dropped[x%uint32(n)] = true
		}
		if d.Keep > 0 && n > d.Keep && !d.All && len(d.Docs) == 0 {
			for i := 1; i <= n-d.Keep; i++ {
				bm.Add(uint32(i))
				dropped[i] = true
			}
		}
	}
	return bm, dropped
}

// Persist writes seg to a fresh healthy SimWriter.
func Persist(seg segment.Segment, sched *Sched) (data []byte, ret int64, pi *PanicInfo, err error) {
	w := NewSimWriter(sched)
	pi = Guard(func() { ret, err = seg.WriteTo(w, nil) })
	return w.Buf, ret, pi, err
}

// PersistBuffered writes seg to a destination that is itself a bufio.Writer of
// the given size over a healthy SimWriter, optionally with bytes of the caller
// already pending in it (as when several things are written to one file). It
// returns the bytes the segment contributed and the count WriteTo reported.
func PersistBuffered(seg segment.Segment, size, pending int, sched *Sched) (data []byte, ret int64, pi *PanicInfo, err error) {
	w := NewSimWriter(sched)
	bw := bufio.NewWriterSize(w, size)
	pre := make([]byte, pending)
	for i := range pre {
		pre[i] = 0xEE
	}
	_, _ = bw.Write(pre)
	pi = Guard(func() { ret, err = seg.WriteTo(bw, nil) })
	if pi == nil && err == nil {
		err = bw.Flush()
	}
	if len(w.Buf) >= pending {
		data = w.Buf[pending:]
	}
	return data, ret, pi, err
}

// LoadView loads an image as a mem or file view.
func LoadView(img []byte, store string, sched *Sched) (seg segment.Segment, mem []byte, ra *SimReaderAt, pi *PanicInfo, err error) {
	return LoadViewWith(IceImpl, img, store, sched)
}

// LoadViewWith loads an image with the given implementation's reader.
func LoadViewWith(impl *Impl, img []byte, store string, sched *Sched) (seg segment.Segment, mem []byte, ra *SimReaderAt, pi *PanicInfo, err error) {
	pi = Guard(func() {
		if store == StoreFile {
			ra = NewSimReaderAt(img, sched)
			seg, err = impl.Load(NewDataReaderAt(ra, len(img)))
		} else {
			mem = append([]byte(nil), img...)
			seg, err = impl.Load(segment.NewDataBytes(mem))
		}
	})
	return
}

// BuildWorld constructs every segment of the definition with the real ice
// code. A failure of New / merge / WriteTo / Load on these valid inputs is
// returned as a violation of the respective property.
func BuildWorld(def *WorldDef, sched *Sched) (*World, *Fail) {
	return BuildWorldFor("", def, sched)
}

// BuildWorldFor is BuildWorld for the check of a given property (which only
// decides the order in which a merge's results are examined, i.e. the
// attribution when several things are wrong with the same merge).
func BuildWorldFor(prop string, def *WorldDef, sched *Sched) (*World, *Fail) {
	return BuildWorldWith(IceImpl, prop, def, sched)
}

// BuildWorldWith builds the world with the given implementation.
func BuildWorldWith(impl *Impl, prop string, def *WorldDef, sched *Sched) (*World, *Fail) {
	w := &World{Impl: impl, Def: def, DV: map[string]bool{}, Sched: sched, Prop: prop}
	for _, n := range def.DV {
		w.DV[n] = true
	}
	sched.Hold()
	defer sched.Release()
	for i := range def.Segs {
		Heartbeat()
		sd := &def.Segs[i]
		var ws *WSeg
		var fail *Fail
		if sd.Merge != nil && (i > 0 || len(sd.Merge.In) == 0) {
			ws, fail = w.buildMerge(i, sd)
		} else {
			ws, fail = w.buildNew(i, sd)
		}
		if fail != nil {
			return nil, fail
		}
		ws.dv = w.DV
		sched.WatchMutexes(ws.Seg)
		w.Segs = append(w.Segs, ws)
	}
	return w, nil
}

func (w *World) buildNew(i int, sd *SegDef) (*WSeg, *Fail) {
	docs := ExpandBatch(sd, i)
	ws := &WSeg{Idx: i, Def: sd, Kind: model.Built}
	// doc-value fields of this batch: named so in the world and requested by
	// at least one instance
	batchDV := map[string]bool{}
	for k := range docs {
		for j := range docs[k].Fields {
			f := &docs[k].Fields[j]
			if w.DV[f.Name] && !f.NoDV {
				batchDV[f.Name] = true
			}
		}
	}
	for k := range docs {
		ws.Docs = append(ws.Docs, model.SDoc{D: &docs[k], Norm: sd.Norm, DV: batchDV})
	}
	ws.Fields = model.BuiltFields(ws.Docs)
	var seg segment.Segment
	var err error
	PreBuild(w.Impl, len(docs))
	pi := Guard(func() {
		seg, ws.NewSize, err = w.Impl.New(ToSegmentDocs(docs, w.DV, w.Sched), model.NormFn(sd.Norm), sd.Mode)
	})
	PostBuild(w.Impl, len(docs), ws.NewSize)
	if pi != nil {
		return nil, &Fail{Prop: "C01", Oracle: "world", Kind: "panic", Site: pi.Site, Detail: fmt.Sprintf("New(seg %d, %d docs, mode %d) panicked: %s", i, len(docs), sd.Mode, pi.Msg)}
	}
	if err != nil {
		return nil, &Fail{Prop: "C01", Oracle: "world", Kind: "error", Site: "New", Detail: fmt.Sprintf("New(seg %d, %d docs, mode %d): %v", i, len(docs), sd.Mode, err)}
	}
	ws.Orig = seg
	ws.Seg = seg
	if memLog && len(docs) > 0 && int(ws.NewSize)/len(docs) > 300000 {
		fmt.Fprintf(os.Stderr, "MEMLOG build of %d docs -> %d bytes (%d bytes/doc)\n", len(docs), ws.NewSize, int(ws.NewSize)/len(docs))
	}
	var perr error
	ws.Bytes, ws.WriteRet, pi, perr = Persist(seg, w.Sched)
	if pi != nil || perr != nil {
		return nil, apiFail("C04", "world", "Segment.WriteTo(built)", pi, perr)
	}
	if sd.Store == StoreMem || sd.Store == StoreFile {
		var lerr error
		ws.Seg, ws.Mem, ws.RA, pi, lerr = LoadViewWith(w.Impl, ws.Bytes, sd.Store, w.Sched)
		if pi != nil || lerr != nil {
			return nil, apiFail("C04", "world", "Load(built image)", pi, lerr)
		}
	}
	return ws, nil
}

func apiFail(prop, oracle, site string, pi *PanicInfo, err error) *Fail {
	if pi != nil {
		return &Fail{Prop: prop, Oracle: oracle, Kind: "panic", Site: pi.Site, Detail: fmt.Sprintf("%s panicked: %s", site, pi.Msg)}
	}
	return &Fail{Prop: prop, Oracle: oracle, Kind: "error", Site: site, Detail: fmt.Sprintf("%s: %v", site, err)}
}

// RunMerge executes a merge of the given inputs into wr.
func RunMerge(md *MergeDef, mode uint32, segs []segment.Segment, drops []*roaring.Bitmap, wr *SimWriter, closeCh chan struct{}) (nums [][]uint64, ret int64, pi *PanicInfo, err error) {
	return RunMergeWith(IceImpl, md, mode, segs, drops, wr, closeCh)
}

// RunMergeWith executes a merge with the given implementation.
func RunMergeWith(impl *Impl, md *MergeDef, mode uint32, segs []segment.Segment, drops []*roaring.Bitmap, wr *SimWriter, closeCh chan struct{}) (nums [][]uint64, ret int64, pi *PanicInfo, err error) {
	pi = Guard(func() { nums, ret, err = impl.Merge(md, mode, segs, drops, wr, closeCh) })
	return
}

// MergeMode is the chunk mode a merge definition ends up with.
func MergeMode(sd *SegDef) uint32 {
	if sd.Merge != nil && sd.Merge.Public {
		return 1025
	}
	return sd.Mode
}

// ResolveInputs maps a merge definition's input indices onto earlier segments.
func (w *World) ResolveInputs(i int, md *MergeDef) []*WSeg {
	var ins []*WSeg
	if i == 0 {
		return nil
	}
	for _, x := range md.In {
		if x < 0 {
			x = -x
		}
		ins = append(ins, w.Segs[x%i])
	}
	return ins
}

func (w *World) buildMerge(i int, sd *SegDef) (*WSeg, *Fail) {
	md := sd.Merge
	ws := &WSeg{Idx: i, Def: sd, Kind: model.Merged}
	ws.Inputs = w.ResolveInputs(i, md)
	var segs []segment.Segment
	var lists [][]string
	next := uint64(0)
	for k, in := range ws.Inputs {
		var d *Drop
		if k < len(md.Drops) {
			d = &md.Drops[k]
		}
		bm, dropped := MakeDrops(d, len(in.Docs))
		ws.Drops = append(ws.Drops, bm)
		segs = append(segs, in.Seg)
		lists = append(lists, in.Fields)
		nums := make([]uint64, len(in.Docs))
		for j := range in.Docs {
			if dropped[j] {
				nums[j] = math.MaxInt64
			} else {
				nums[j] = next
				next++
				ws.Docs = append(ws.Docs, in.Docs[j])
			}
		}
		ws.WantNums = append(ws.WantNums, nums)
	}
	ws.Fields = model.UnionFields(lists...)
	wr := NewSimWriter(w.Sched)
	var pi *PanicInfo
	var err error
	ws.DocNums, ws.MergeRet, pi, err = RunMergeWith(w.Impl, md, sd.Mode, segs, ws.Drops, wr, nil)
	if pi != nil || err != nil {
		return nil, apiFail("C02", "world", fmt.Sprintf("merge(seg %d of %d inputs)", i, len(segs)), pi, err)
	}
	ws.Bytes = wr.Buf
	ws.WriteRet = ws.MergeRet
	if w.Prop == "C03" && len(ws.DocNums) != len(ws.WantNums) {
		return nil, mismatch("C03", "docnums", "outer-length", fmt.Sprintf("seg %d: DocumentNumbers() has %d slices for %d input segments (survivors=%d)", i, len(ws.DocNums), len(ws.WantNums), len(ws.Docs)))
	}
	store := sd.Store
	if store != StoreFile {
		store = StoreMem
	}
	var lerr error
	ws.Seg, ws.Mem, ws.RA, pi, lerr = LoadViewWith(w.Impl, ws.Bytes, store, w.Sched)
	if pi != nil || lerr != nil {
		return nil, apiFail("C04", "world", fmt.Sprintf("Load(merge output, %d survivors)", len(ws.Docs)), pi, lerr)
	}
	return ws, nil
}

// MergeModeOrBuild is the chunk mode a world segment was written with.
func MergeModeOrBuild(ws *WSeg) uint32 {
	if ws.Kind == model.Built {
		return ws.Def.Mode
	}
	return MergeMode(ws.Def)
}

// ---- keeping ice's buffer estimate from inflating the process --------------------
//
// ice's builder pre-sizes its output buffer with (bytes per document of the
// pooled builder's previous build) x (documents of this batch). That is a
// resource habit, not one of the properties (C14: the bytes do not depend on
// it), but in a process that builds a one-document 4 MB batch (70 000
// locations) and, cases later, a 3 000-document batch, New reserves 13 GiB - and
// when the runtime serves that from recycled memory it has to zero it, so the
// process really occupies it. The memory watchdog would then take the unchanged
// code for a blow-up. So the harness keeps book of the heaviest build per
// implementation and, before a batch whose reservation could exceed half a
// gigabyte, empties the builder pool: two GC cycles drop the contents of a
// sync.Pool, and a few one-document builds overwrite the estimates of whatever
// other kind of free list an implementation may keep.

var heaviest = map[*Impl]int{} // largest bytes/doc built since the last drain

const poolDrainThreshold = 512 << 20

// PreBuild is called before a build of nDocs documents (harness context only:
// never from inside a scheduled task).
func PreBuild(impl *Impl, nDocs int) {
	h := heaviest[impl]
	if h == 0 || nDocs < 2 || h*(nDocs+1) < poolDrainThreshold {
		return
	}
	runtime.GC()
	runtime.GC()
	tiny := []model.Doc{{Fields: []model.Field{{Name: "r", Terms: []model.Term{{T: model.Bytes("x"), N: 1}}}}}}
	for i := 0; i < 16; i++ {
		_ = Guard(func() { _, _, _ = impl.New(ToSegmentDocs(tiny, nil, nil), model.NormFn(1), 1025) })
	}
	heaviest[impl] = 0
}

// PostBuild records the outcome of a build (harness context only).
func PostBuild(impl *Impl, nDocs int, size uint64) {
	if nDocs > 0 && int(size)/nDocs > heaviest[impl] {
		heaviest[impl] = int(size) / nDocs
	}
}
