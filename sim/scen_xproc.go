package sim

import (
	"bytes"
	"crypto/sha256"
	"encoding/hex"
	"encoding/json"
	"fmt"
	"os"
	"os/exec"
	"strings"

	"pgregory.net/rapid"

	"icesim/model"
)

// Scenario "fresh-process" (C14): state that outlives a build can also live in
// package-level singletons initialised by the FIRST use in a process (an
// encoder created with the parameters of the first call, a lazily sized
// table). Inside one process every later build sees the same singleton, so
// comparing builds within a process cannot notice. Here the target batch is
// built in two fresh child processes - once as the very first build, once
// after a short history whose first build is often tiny - and in the (long
// lived) shard process itself; all three must produce the same bytes.

func init() {
	register(&Scenario{
		Name: "fresh-process",
		Rule: "every case is non-trivial when the target batch has >=1 document: two fresh processes (target first / target after 1-2 other builds) and the shard process build the target; distinct = distinct case JSON",
		Gen:  genXProcCase,
		Run:  runXProcCase,
	})
}

func genXProcCase(t *rapid.T, prop string) *Case {
	o := WorldOpts{MinBuilds: 1, MaxBuilds: 1, BigPct: 5, HugePct: 0, MaxTinyDocs: 8, Stores: []string{StoreBuilt}}
	o.defaults()
	s := genSchema(t, &o)
	mk := func(label string) SegDef {
		return SegDef{
			Batch: genBatch(t, s, &o),
			Norm:  rapid.IntRange(0, model.NormKinds-1).Draw(t, label+"norm"),
			Mode:  rapid.SampledFrom(chunkModes).Draw(t, label+"mode"),
			Store: StoreBuilt,
		}
	}
	bc := &BuildHCase{DV: s.dvList(), Target: mk("t")}
	switch rapid.IntRange(0, 2).Draw(t, "first") {
	case 0:
		// the smallest possible first build: one document, nothing but its _id
		bc.History = append(bc.History, SegDef{Batch: []Item{{Doc: &model.Doc{}}}, Mode: 1025, Store: StoreBuilt})
	case 1:
		// one small document with a short stored value and a two-term field
		d := model.Doc{Fields: []model.Field{{Name: "a", Store: true, Val: model.Bytes("v"), Terms: []model.Term{{T: model.Bytes("x"), N: 1}, {T: model.Bytes("y"), N: 2}}}}}
		bc.History = append(bc.History, SegDef{Batch: []Item{{Doc: &d}}, Mode: rapid.SampledFrom(chunkModes).Draw(t, "fmode"), Norm: 1, Store: StoreBuilt})
	default:
		bc.History = append(bc.History, mk("h"))
	}
	if rapid.IntRange(0, 2).Draw(t, "second") == 0 {
		bc.History = append(bc.History, mk("g"))
	}
	return &Case{BuildH: bc}
}

// XProcRequest is what a child process reads from its standard input.
type XProcRequest struct {
	DV      []string `json:"dv,omitempty"`
	History []SegDef `json:"history,omitempty"`
	Target  SegDef   `json:"target"`
}

// XProcChild executes a request in this (fresh) process and prints
// "<sha256> <length>" of the target's bytes, or "ERROR <text>".
func XProcChild() int {
	var rq XProcRequest
	if err := json.NewDecoder(os.Stdin).Decode(&rq); err != nil {
		fmt.Println("ERROR bad request:", err)
		return 2
	}
	dv := map[string]bool{}
	for _, n := range rq.DV {
		dv[n] = true
	}
	for i := range rq.History {
		_, _, _ = buildBytes(&rq.History[i], 200+i, dv, nil)
	}
	b, err, pi := buildBytes(&rq.Target, 0, dv, nil)
	if pi != nil {
		fmt.Println("ERROR panic:", strings.ReplaceAll(pi.Msg, "\n", " "), "at", pi.Site)
		return 0
	}
	if err != nil {
		fmt.Println("ERROR", strings.ReplaceAll(err.Error(), "\n", " "))
		return 0
	}
	h := sha256.Sum256(b)
	fmt.Println(hex.EncodeToString(h[:]), len(b))
	return 0
}

func runXProcChild(rq *XProcRequest) (string, error) {
	exe, err := os.Executable()
	if err != nil {
		return "", err
	}
	in, _ := json.Marshal(rq)
	cmd := exec.Command(exe, "xproc-child")
	cmd.Stdin = bytes.NewReader(in)
	var stderr bytes.Buffer
	cmd.Stderr = &stderr
	out, err := cmd.Output()
	if err != nil {
		return "", fmt.Errorf("child process: %v: %s", err, stderr.String())
	}
	return strings.TrimSpace(string(out)), nil
}

func runXProcCase(c *Case, env *Env) *Result {
	res := &Result{SubRuns: 3}
	bc := c.BuildH
	dv := map[string]bool{}
	for _, n := range bc.DV {
		dv[n] = true
	}
	nTarget := len(ExpandBatch(&bc.Target, 0))
	// the shard process itself (whatever it has built so far)
	here, err, pi := buildBytes(&bc.Target, 0, dv, nil)
	if pi != nil || err != nil {
		res.Fail = apiFail("C01", "world", "New(target)", pi, err)
		return res
	}
	hh := sha256.Sum256(here)
	want := fmt.Sprintf("%s %d", hex.EncodeToString(hh[:]), len(here))
	first, err1 := runXProcChild(&XProcRequest{DV: bc.DV, Target: bc.Target})
	after, err2 := runXProcChild(&XProcRequest{DV: bc.DV, History: bc.History, Target: bc.Target})
	if err1 != nil || err2 != nil {
		panic(&HarnessPanic{Msg: fmt.Sprintf("fresh-process: %v / %v", err1, err2)})
	}
	res.NonTrivial = nTarget > 0
	res.probe("target-built-in-two-fresh-processes")
	if strings.HasPrefix(first, "ERROR") || strings.HasPrefix(after, "ERROR") {
		res.Fail = &Fail{Prop: "C14", Oracle: "build-history", Kind: "error", Site: "fresh-process", Detail: fmt.Sprintf("the target batch (%d docs) builds in this process but not in a fresh one: first build of the process: %q; after %d other build(s): %q", nTarget, first, len(bc.History), after)}
		return res
	}
	if first != after {
		res.Fail = mismatch("C14", "build-history", "fresh-process", fmt.Sprintf("the target batch (%d docs, mode %d) built as the FIRST build of a fresh process gives %s (sha256, length); built in another fresh process after %d other build(s) it gives %s", nTarget, bc.Target.Mode, first, len(bc.History), after))
		return res
	}
	if first != want {
		res.Fail = mismatch("C14", "build-history", "fresh-process", fmt.Sprintf("the target batch (%d docs, mode %d) built as the first build of a fresh process gives %s (sha256, length); built in the long-running shard process it gives %s", nTarget, bc.Target.Mode, first, want))
		return res
	}
	return res
}
