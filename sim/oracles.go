package sim

import (
	"bytes"
	"encoding/binary"
	"fmt"
	"hash/crc32"

	segment "github.com/blugelabs/bluge_segment_api"
	ice "github.com/blugelabs/ice/v2"

	"icesim/model"
)

// Oracles shared by several scenarios. Each returns the first violation.

func mismatch(prop, oracle, site, detail string) *Fail {
	return &Fail{Prop: prop, Oracle: oracle, Kind: "mismatch", Site: site, Detail: detail}
}

// checkModel: the segment's content observations equal the model's (C01 for
// built segments, C02 for merged ones). Statistics (C16) and dictionary entry
// counts (C08) have their own properties and are not compared here.
func checkModel(prop string, ws *WSeg, seg segment.Segment, how string, reuse bool) *Fail {
	got, fail := Observe(prop, seg, ObsOpts{SkipStats: true, Reuse: reuse})
	if fail != nil {
		fail.Detail = fmt.Sprintf("seg %d (%s): %s", ws.Idx, how, fail.Detail)
		return fail
	}
	if d := model.Diff(got, ws.Exp(), "stats", "counts"); d != "" {
		return mismatch(prop, "model", sectionOf(d), fmt.Sprintf("seg %d (%s, %d docs, mode %d): %s", ws.Idx, how, len(ws.Docs), ws.Def.Mode, d))
	}
	return nil
}

// sectionOf maps a diff description to a coarse, stable site label.
func sectionOf(d string) string {
	switch {
	case bytes.HasPrefix([]byte(d), []byte("count")):
		return "count"
	case bytes.HasPrefix([]byte(d), []byte("fields")):
		return "fields"
	case bytes.HasPrefix([]byte(d), []byte("stored")):
		return "stored"
	case bytes.HasPrefix([]byte(d), []byte("docvalues")):
		return "docvalues"
	case bytes.HasPrefix([]byte(d), []byte("stats")):
		return "stats"
	case bytes.Contains([]byte(d), []byte("locs")):
		return "locations"
	case bytes.Contains([]byte(d), []byte("norm bits")):
		return "norm"
	case bytes.Contains([]byte(d), []byte("freq")):
		return "freq"
	case bytes.Contains([]byte(d), []byte("entry count")):
		return "dict-count"
	case bytes.Contains([]byte(d), []byte("posting")):
		return "postings"
	case bytes.Contains([]byte(d), []byte("term")):
		return "terms"
	}
	return "other"
}

// checkStats: C16.
func checkStats(ws *WSeg, seg segment.Segment, how string) *Fail {
	got, fail := Observe("C16", seg, ObsOpts{SkipDicts: true, SkipStored: true, SkipDV: true})
	if fail != nil {
		return fail
	}
	exp := ws.Exp()
	for _, f := range append(append([]string(nil), exp.Fields...), model.UnknownField) {
		g, w := got.Stats[f], exp.Stats[f]
		if g != w {
			site := "sum"
			if g.Total != w.Total {
				site = "total"
			} else if g.Docs != w.Docs {
				site = "docs"
			}
			return mismatch("C16", "stats", site, fmt.Sprintf("seg %d (%s, kind %d) field %q: got %+v want %+v", ws.Idx, how, ws.Kind, f, g, w))
		}
	}
	return nil
}

// foreignStats is a segment.CollectionStats that is not ice's own type (the
// statistics of another segment implementation or a caller-side accumulator).
type foreignStats struct{ total, docs, sum uint64 }

func (f *foreignStats) TotalDocumentCount() uint64    { return f.total }
func (f *foreignStats) DocumentCount() uint64         { return f.docs }
func (f *foreignStats) SumTotalTermFrequency() uint64 { return f.sum }
func (f *foreignStats) Merge(o segment.CollectionStats) {
	f.total += o.TotalDocumentCount()
	f.docs += o.DocumentCount()
	f.sum += o.SumTotalTermFrequency()
}

// checkStatsMergeForeign: Merge adds component-wise also when the argument is
// another implementation of the interface.
func checkStatsMergeForeign(a segment.Segment, field string) *Fail {
	var fail *Fail
	pi := Guard(func() {
		x, err := a.CollectionStats(field)
		if err != nil {
			fail = apiFail("C16", "stats", "CollectionStats", nil, err)
			return
		}
		x0 := model.StatObs{Total: x.TotalDocumentCount(), Docs: x.DocumentCount(), Sum: x.SumTotalTermFrequency()}
		other := &foreignStats{total: 1000, docs: 7, sum: 123456789}
		x.Merge(other)
		got := model.StatObs{Total: x.TotalDocumentCount(), Docs: x.DocumentCount(), Sum: x.SumTotalTermFrequency()}
		want := model.StatObs{Total: x0.Total + 1000, Docs: x0.Docs + 7, Sum: x0.Sum + 123456789}
		if got != want {
			fail = mismatch("C16", "stats", "Merge", fmt.Sprintf("field %q: %+v.Merge(foreign implementation {1000 7 123456789}) = %+v want %+v", field, x0, got, want))
		}
	})
	if pi != nil {
		return apiFail("C16", "stats", "CollectionStats.Merge(foreign)", pi, nil)
	}
	return fail
}

// checkStatsMergeAdds: CollectionStats.Merge adds component-wise.
func checkStatsMergeAdds(a, b segment.Segment, field string) *Fail {
	var fail *Fail
	pi := Guard(func() {
		x, err := a.CollectionStats(field)
		if err != nil {
			fail = apiFail("C16", "stats", "CollectionStats", nil, err)
			return
		}
		y, err := b.CollectionStats(field)
		if err != nil {
			fail = apiFail("C16", "stats", "CollectionStats", nil, err)
			return
		}
		x0 := model.StatObs{Total: x.TotalDocumentCount(), Docs: x.DocumentCount(), Sum: x.SumTotalTermFrequency()}
		y0 := model.StatObs{Total: y.TotalDocumentCount(), Docs: y.DocumentCount(), Sum: y.SumTotalTermFrequency()}
		x.Merge(y)
		x1 := model.StatObs{Total: x.TotalDocumentCount(), Docs: x.DocumentCount(), Sum: x.SumTotalTermFrequency()}
		y1 := model.StatObs{Total: y.TotalDocumentCount(), Docs: y.DocumentCount(), Sum: y.SumTotalTermFrequency()}
		want := model.StatObs{Total: x0.Total + y0.Total, Docs: x0.Docs + y0.Docs, Sum: x0.Sum + y0.Sum}
		if x1 != want {
			fail = mismatch("C16", "stats", "Merge", fmt.Sprintf("field %q: %+v.Merge(%+v) = %+v want %+v", field, x0, y0, x1, want))
		} else if y1 != y0 {
			fail = mismatch("C16", "stats", "Merge", fmt.Sprintf("field %q: Merge modified its argument: %+v -> %+v", field, y0, y1))
		} else {
			// the value handed out belongs to the caller: merging into it must
			// not change what the segment itself reports
			x2, err := a.CollectionStats(field)
			if err != nil {
				fail = apiFail("C16", "stats", "CollectionStats", nil, err)
				return
			}
			again := model.StatObs{Total: x2.TotalDocumentCount(), Docs: x2.DocumentCount(), Sum: x2.SumTotalTermFrequency()}
			if again != x0 {
				fail = mismatch("C15", "immutability", "stats-after-Merge", fmt.Sprintf("field %q: after Merge on a value returned by CollectionStats the segment reports %+v instead of %+v", field, again, x0))
			}
		}
	})
	if pi != nil {
		return apiFail("C16", "stats", "CollectionStats.Merge", pi, nil)
	}
	return fail
}

// checkDocNums: C03.
func checkDocNums(ws *WSeg) *Fail {
	if ws.Kind != model.Merged {
		return nil
	}
	if len(ws.DocNums) != len(ws.WantNums) {
		return mismatch("C03", "docnums", "outer-length", fmt.Sprintf("seg %d: DocumentNumbers() has %d slices for %d input segments (survivors=%d)", ws.Idx, len(ws.DocNums), len(ws.WantNums), len(ws.Docs)))
	}
	for i := range ws.WantNums {
		g, w := ws.DocNums[i], ws.WantNums[i]
		if len(g) != len(w) {
			return mismatch("C03", "docnums", "inner-length", fmt.Sprintf("seg %d: DocumentNumbers()[%d] has %d entries, input has %d documents", ws.Idx, i, len(g), len(w)))
		}
		for j := range w {
			if g[j] != w[j] {
				return mismatch("C03", "docnums", "entry", fmt.Sprintf("seg %d: DocumentNumbers()[%d][%d] = %d want %d", ws.Idx, i, j, g[j], w[j]))
			}
		}
	}
	var cnt uint64
	if pi := Guard(func() { cnt = ws.Seg.Count() }); pi != nil {
		return apiFail("C03", "docnums", "Count", pi, nil)
	}
	if cnt != uint64(len(ws.Docs)) {
		return mismatch("C03", "docnums", "count", fmt.Sprintf("seg %d: merged Count()=%d, survivors=%d", ws.Idx, cnt, len(ws.Docs)))
	}
	// content identity: the stored values of every surviving old document are
	// found at exactly its reported new number
	for i, in := range ws.Inputs {
		for j := range ws.DocNums[i] {
			nn := ws.DocNums[i][j]
			if nn == dropSentinel {
				continue
			}
			oldVals, fail := VisitStored("C03", in.Seg, uint64(j))
			if fail != nil {
				return nil // reading the input is another property's business
			}
			newVals, fail := VisitStored("C03", ws.Seg, nn)
			if fail != nil {
				return nil
			}
			// compare as multisets per field: field order may change with the merged field list
			if d := diffStoredByField(oldVals, newVals); d != "" {
				return mismatch("C03", "docnums", "content", fmt.Sprintf("seg %d: input %d doc %d reported at new number %d, but stored content differs: %s", ws.Idx, i, j, nn, d))
			}
		}
	}
	return nil
}

const dropSentinel = uint64(1<<63 - 1)

func diffStoredByField(a, b []model.FV) string {
	group := func(x []model.FV) map[string][]string {
		m := map[string][]string{}
		for _, fv := range x {
			m[fv.F] = append(m[fv.F], string(fv.V))
		}
		return m
	}
	ga, gb := group(a), group(b)
	if len(ga) != len(gb) {
		return fmt.Sprintf("fields %d vs %d", len(ga), len(gb))
	}
	for f, va := range ga {
		vb := gb[f]
		if len(va) != len(vb) {
			return fmt.Sprintf("field %q: %d vs %d values", f, len(va), len(vb))
		}
		for i := range va {
			if va[i] != vb[i] {
				return fmt.Sprintf("field %q value %d: %q vs %q", f, i, va[i], vb[i])
			}
		}
	}
	return ""
}

// ---- footer (C11) ------------------------------------------------------------------

// footer layout per README.md / footer.go widths, parsed independently of ice:
// numDocs(8) storedIndex(8) fieldsIndex(8) docValue(8) chunkMode(4) version(4) crc(4)
const footerSize = 8 + 8 + 8 + 8 + 4 + 4 + 4

type footerView struct {
	NumDocs, Stored, Fields, DocValue uint64
	ChunkMode, Version, CRC           uint32
}

func parseFooterIndependently(img []byte) (*footerView, error) {
	if len(img) < footerSize {
		return nil, fmt.Errorf("file of %d bytes is shorter than the %d-byte footer", len(img), footerSize)
	}
	f := img[len(img)-footerSize:]
	return &footerView{
		NumDocs:   binary.BigEndian.Uint64(f[0:]),
		Stored:    binary.BigEndian.Uint64(f[8:]),
		Fields:    binary.BigEndian.Uint64(f[16:]),
		DocValue:  binary.BigEndian.Uint64(f[24:]),
		ChunkMode: binary.BigEndian.Uint32(f[32:]),
		Version:   binary.BigEndian.Uint32(f[36:]),
		CRC:       binary.BigEndian.Uint32(f[40:]),
	}, nil
}

// checkFooter validates one written image. path names the write path.
func checkFooter(img []byte, ret int64, path string, wantDocs int, wantMode uint32) *Fail {
	if ret != int64(len(img)) {
		return mismatch("C11", "footer", "byte-count", fmt.Sprintf("%s: WriteTo returned %d, writer received %d bytes", path, ret, len(img)))
	}
	fv, err := parseFooterIndependently(img)
	if err != nil {
		return mismatch("C11", "footer", "length", fmt.Sprintf("%s: %v", path, err))
	}
	if crc := crc32.ChecksumIEEE(img[:len(img)-4]); crc != fv.CRC {
		return mismatch("C11", "footer", "crc:"+pathClass(path), fmt.Sprintf("%s: stored CRC %#08x, CRC-32 of preceding %d bytes is %#08x", path, fv.CRC, len(img)-4, crc))
	}
	if fv.NumDocs != uint64(wantDocs) {
		return mismatch("C11", "footer", "numdocs", fmt.Sprintf("%s: footer numDocs=%d, segment has %d documents", path, fv.NumDocs, wantDocs))
	}
	if fv.Version != 2 {
		return mismatch("C11", "footer", "version", fmt.Sprintf("%s: footer version=%d", path, fv.Version))
	}
	if fv.ChunkMode != wantMode {
		return mismatch("C11", "footer", "chunkmode", fmt.Sprintf("%s: footer chunk mode=%d, written with %d", path, fv.ChunkMode, wantMode))
	}
	return nil
}

func pathClass(path string) string {
	for _, p := range []string{"re-persist", "built", "merge"} {
		if bytes.Contains([]byte(path), []byte(p)) {
			return p
		}
	}
	return "other"
}

// checkFooterVsLoaded: the footer fields equal what the loaded segment reports.
func checkFooterVsLoaded(img []byte, loaded segment.Segment, path string) *Fail {
	fv, err := parseFooterIndependently(img)
	if err != nil {
		return mismatch("C11", "footer", "length", fmt.Sprintf("%s: %v", path, err))
	}
	s, ok := loaded.(*ice.Segment)
	if !ok {
		return nil
	}
	if s.NumDocs() != fv.NumDocs || uint64(s.Count()) != fv.NumDocs {
		return mismatch("C11", "footer", "numdocs", fmt.Sprintf("%s: footer numDocs=%d, loaded NumDocs()=%d Count()=%d", path, fv.NumDocs, s.NumDocs(), s.Count()))
	}
	if s.Version() != fv.Version {
		return mismatch("C11", "footer", "version", fmt.Sprintf("%s: footer version=%d, loaded Version()=%d", path, fv.Version, s.Version()))
	}
	if s.ChunkMode() != fv.ChunkMode {
		return mismatch("C11", "footer", "chunkmode", fmt.Sprintf("%s: footer chunk mode=%d, loaded ChunkMode()=%d", path, fv.ChunkMode, s.ChunkMode()))
	}
	return nil
}

// checkFooterAll: C11 over every write path of one world segment.
func checkFooterAll(ws *WSeg, sched *Sched, res *Result) *Fail {
	mode := MergeMode(ws.Def)
	if ws.Kind == model.Built {
		mode = ws.Def.Mode
	}
	what := "Segment.WriteTo(built)"
	if ws.Kind == model.Merged {
		what = "Merger.WriteTo(merge)"
	}
	if f := checkFooter(ws.Bytes, ws.WriteRet, fmt.Sprintf("seg %d %s", ws.Idx, what), len(ws.Docs), mode); f != nil {
		return f
	}
	for _, d := range []struct{ size, pending int }{{65536, 0}, {8192, 517}} {
		b, ret, pi, err := PersistBuffered(ws.Seg, d.size, d.pending, sched)
		path := fmt.Sprintf("seg %d Segment.WriteTo(re-persist into a bufio.Writer of %d bytes, %d caller bytes pending)", ws.Idx, d.size, d.pending)
		if pi != nil || err != nil {
			return apiFail("C11", "footer", path, pi, err)
		}
		if f := checkFooter(b, ret, path, len(ws.Docs), mode); f != nil {
			return f
		}
	}
	for _, store := range []string{StoreMem, StoreFile} {
		loaded, _, _, pi, err := LoadView(ws.Bytes, store, sched)
		if pi != nil || err != nil {
			return apiFail("C04", "roundtrip", "Load("+store+")", pi, err)
		}
		if f := checkFooterVsLoaded(ws.Bytes, loaded, fmt.Sprintf("seg %d loaded(%s)", ws.Idx, store)); f != nil {
			return f
		}
		img2, ret2, pi, err := Persist(loaded, sched)
		if pi != nil || err != nil {
			return apiFail("C11", "footer", "Segment.WriteTo(re-persist "+store+")", pi, err)
		}
		res.probe("re-persist-" + store)
		path := fmt.Sprintf("seg %d Segment.WriteTo(re-persist of %s-loaded)", ws.Idx, store)
		if f := checkFooter(img2, ret2, path, len(ws.Docs), mode); f != nil {
			return f
		}
		if !bytes.Equal(img2, ws.Bytes) {
			return mismatch("C11", "footer", "re-persist-bytes", fmt.Sprintf("%s: %d bytes differ from the original %d-byte file at offset %d", path, len(img2), len(ws.Bytes), firstDiff(img2, ws.Bytes)))
		}
	}
	return nil
}

func firstDiff(a, b []byte) int {
	n := len(a)
	if len(b) < n {
		n = len(b)
	}
	for i := 0; i < n; i++ {
		if a[i] != b[i] {
			return i
		}
	}
	return n
}

// checkRoundtrip: C04 for one world segment.
func checkRoundtrip(ws *WSeg, sched *Sched, res *Result) *Fail {
	if ws.WriteRet != int64(len(ws.Bytes)) {
		return mismatch("C04", "roundtrip", "byte-count", fmt.Sprintf("seg %d: WriteTo returned %d, writer received %d bytes", ws.Idx, ws.WriteRet, len(ws.Bytes)))
	}
	// destinations that are themselves buffered writers (with or without
	// bytes of the caller pending): same bytes, exact count
	for i, d := range []struct{ size, pending int }{{4096, 0}, {65536, 0}, {65536, 1000}, {16, 3}} {
		view := ws.Seg
		if i%2 == 1 && ws.Orig != nil {
			view = ws.Orig
		}
		b, ret, pi, err := PersistBuffered(view, d.size, d.pending, sched)
		where := fmt.Sprintf("seg %d: WriteTo into a bufio.Writer of %d bytes with %d caller bytes pending", ws.Idx, d.size, d.pending)
		if pi != nil || err != nil {
			return apiFail("C04", "roundtrip", where, pi, err)
		}
		if !bytes.Equal(b, ws.Bytes) {
			return mismatch("C04", "roundtrip", "buffered-destination-bytes", fmt.Sprintf("%s wrote %d bytes differing from the %d-byte file at offset %d", where, len(b), len(ws.Bytes), firstDiff(b, ws.Bytes)))
		}
		if ret != int64(len(b)) {
			return mismatch("C04", "roundtrip", "byte-count", fmt.Sprintf("%s returned %d but wrote %d bytes", where, ret, len(b)))
		}
		res.probe("persist-into-buffered-destination")
	}
	var ref *model.Obs
	refName := ""
	if ws.Orig != nil {
		o, fail := Observe("C04", ws.Orig, ObsOpts{})
		if fail != nil {
			return nil // the original itself misbehaves: not a round-trip matter
		}
		ref, refName = o, "the segment New returned"
	}
	for _, store := range []string{StoreMem, StoreFile} {
		loaded, _, _, pi, err := LoadView(ws.Bytes, store, sched)
		if pi != nil || err != nil {
			return apiFail("C04", "roundtrip", fmt.Sprintf("Load(%s image of seg %d, %d docs)", store, ws.Idx, len(ws.Docs)), pi, err)
		}
		o, fail := Observe("C04", loaded, ObsOpts{})
		if fail != nil {
			fail.Oracle = "roundtrip"
			fail.Detail = fmt.Sprintf("seg %d loaded as %s: %s", ws.Idx, store, fail.Detail)
			return fail
		}
		res.probe("loaded-" + store)
		if ref == nil {
			ref, refName = o, store+"-loaded"
			continue
		}
		if d := model.Diff(o, ref); d != "" {
			return mismatch("C04", "roundtrip", sectionOf(d), fmt.Sprintf("seg %d: %s-loaded differs from %s: %s", ws.Idx, store, refName, d))
		}
	}
	return nil
}
