package sim

// Plans: which scenarios (and how many cases per tier) make up the check of
// each property. Counts are fixed so that a tier explores the same cases for
// a given VERIF_SEED regardless of machine speed.
var Plans = map[string][]PlanItem{
	"C01": {{Scen: "world", Quick: 6000, Thorough: 400000}, {Scen: "giant", Quick: 4, Thorough: 48}},
	"C02": {{Scen: "world", Quick: 4000, Thorough: 250000}, {Scen: "giant", Quick: 4, Thorough: 48}, {Scen: "lifecycle", Quick: 800, Thorough: 60000}},
	"C03": {{Scen: "world", Quick: 4000, Thorough: 250000}, {Scen: "giant", Quick: 4, Thorough: 32}, {Scen: "lifecycle", Quick: 800, Thorough: 60000}},
	"C04": {{Scen: "world", Quick: 3000, Thorough: 150000}, {Scen: "aligned", Quick: 6, Thorough: 64}},
	"C05": {{Scen: "nav", Quick: 12000, Thorough: 600000}},
	"C06": {{Scen: "stored", Quick: 5000, Thorough: 300000}},
	"C07": {{Scen: "docvalues", Quick: 3000, Thorough: 200000}, {Scen: "giant", Quick: 4, Thorough: 64}, {Scen: "world", Quick: 2500, Thorough: 150000}},
	"C08": {{Scen: "dictionary", Quick: 8000, Thorough: 500000}, {Scen: "giant", Quick: 4, Thorough: 48}},
	"C18": {{Scen: "dmt", Quick: 8000, Thorough: 500000}, {Scen: "lifecycle", Quick: 800, Thorough: 60000}},
	"C13": {{Scen: "reuse", Quick: 6000, Thorough: 400000}, {Scen: "docvalues", Quick: 1500, Thorough: 100000}},
	"C15": {{Scen: "immutability", Quick: 2000, Thorough: 200000}, {Scen: "lifecycle", Quick: 800, Thorough: 60000}, {Scen: "persist-fault", Quick: 40, Thorough: 2000}, {Scen: "read-fault", Quick: 120, Thorough: 6000}},
	"C17": {{Scen: "tree", Quick: 3000, Thorough: 200000}},
	"C12": {{Scen: "persist-fault", Quick: 160, Thorough: 12000}, {Scen: "lifecycle", Quick: 800, Thorough: 60000}, {Scen: "merge-read-fault", Quick: 120, Thorough: 8000}},
	"C19": {{Scen: "read-fault", Quick: 640, Thorough: 40000}, {Scen: "read-fault-large", Quick: 160, Thorough: 12000}, {Scen: "merge-read-fault", Quick: 120, Thorough: 8000}},
	"C09": {{Scen: "concurrent", Quick: 3600, Thorough: 300000}},
	"C14": {{Scen: "build-history", Quick: 2500, Thorough: 150000}, {Scen: "fresh-process", Quick: 96, Thorough: 4000}},
	"C10": {{Scen: "interop", Quick: 2500, Thorough: 150000}, {Scen: "golden", Quick: 400, Thorough: 2000}},
	"C11": {{Scen: "world", Quick: 3000, Thorough: 150000}, {Scen: "persist-fault", Quick: 48, Thorough: 2000}, {Scen: "aligned", Quick: 8, Thorough: 96}},
	"C16": {{Scen: "world", Quick: 4000, Thorough: 250000}, {Scen: "giant", Quick: 4, Thorough: 64}},
}

// Levels: the verification level claimed per property.
var Levels = map[string]string{
	"C12": "fault_enumeration",
	"C19": "fault_enumeration",
}

func LevelOf(prop string) string {
	if l, ok := Levels[prop]; ok {
		return l
	}
	return "exploration"
}

// RacePlans: cases additionally executed by the -race build of the same
// engine (baton invisible to the detector, see baton_pipe.go).
var RacePlans = map[string][]PlanItem{
	"C09": {{Scen: "concurrent", Quick: 640, Thorough: 50000}},
	"C14": {{Scen: "build-history", Quick: 500, Thorough: 25000}},
	// error paths: a failed or cancelled call must not leave anything behind that
	// races with the caller's next use of the same objects
	"C19": {{Scen: "read-fault", Quick: 64, Thorough: 4000}, {Scen: "merge-read-fault", Quick: 16, Thorough: 1000}},
	"C12": {{Scen: "persist-fault", Quick: 16, Thorough: 1000}, {Scen: "merge-read-fault", Quick: 16, Thorough: 1000}},
}

// PlanFor returns the plan of a property for the normal or the race build.
func PlanFor(prop string, race bool) []PlanItem {
	if race {
		return RacePlans[prop]
	}
	return Plans[prop]
}

var commonAssumptions = []string{
	"input contract enforced by construction: strictly positive float32 norms; term frequency >= number of locations; location field names empty or naming a field of the batch; no 0xff in doc-value terms; deletion bitmaps only name existing documents; field length = sum of term frequencies; terms distinct within one field instance",
	"a field name is indexed with doc values either in every instance of a world or in none",
	"the reference model (/verif/model) is trusted; it shares no code and no format constant with ice",
	"sampled exploration: a clean run is evidence, not proof",
}

func AssumptionsFor(prop string) []string {
	out := append([]string(nil), commonAssumptions...)
	switch prop {
	case "C09", "C14":
		out = append(out, "interleavings are explored at seam granularity (storage calls, callbacks, operation boundaries); conflicting accesses between seams are detected by the Go race detector along the explored schedules, not interleaved")
	case "C12":
		out = append(out, "writers never return n<len(p) with a nil error (io.Writer contract)")
	case "C19":
		out = append(out, "correctness of data returned by calls after a storage fault is not asserted (the property does not state it)")
	case "C10":
		out = append(out, "the frozen reference copy /verif/refice is the pinned ice package plus the format-neutral fix commits listed in refice/ORIGIN")
	}
	return out
}
