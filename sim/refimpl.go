package sim

import (
	"github.com/RoaringBitmap/roaring"
	segment "github.com/blugelabs/bluge_segment_api"

	"icesim/refice"
)

// RefImpl is the frozen reference copy of ice (see refice/ORIGIN): the "old
// node" sharing a disk with the code under test.
var RefImpl = &Impl{
	Name: "reference",
	New:  refice.VerifNew,
	Load: refice.Load,
	Merge: func(md *MergeDef, mode uint32, segs []segment.Segment, drops []*roaring.Bitmap, wr *SimWriter, closeCh chan struct{}) ([][]uint64, int64, error) {
		if md.Public {
			m := refice.Merge(segs, drops, md.Buf)
			ret, err := m.WriteTo(wr, closeCh)
			return m.DocumentNumbers(), ret, err
		}
		nums, n, err := refice.VerifMerge(segs, drops, wr, mode, closeCh)
		return nums, int64(n), err
	},
}
