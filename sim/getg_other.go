//go:build !amd64

package sim

// without a goroutine identity every caller counts as the task itself
func getg() uintptr { return 0 }
