package sim

import (
	"bytes"
	"errors"
	"fmt"
	"sort"
	"time"

	"github.com/RoaringBitmap/roaring"
	segment "github.com/blugelabs/bluge_segment_api"
	ice "github.com/blugelabs/ice/v2"
	"pgregory.net/rapid"

	"icesim/model"
)

// Scenario "lifecycle": a small stand-in for the index layer above ice (what
// Bluge does with segments), run as a simulation with a model map of live
// documents as the oracle:
//
//   - batches are built and persisted to the simulated disk; a persist may hit
//     a failing writer - then the segment is NOT registered and its documents
//     are not indexed;
//   - deletes are resolved per segment through DocsMatchingTerms and kept in
//     per-segment deletion bitmaps;
//   - a merge runs as a background task (scheduler) over a subset of the live
//     segments with the deletions known at its start, while a foreground task
//     deletes further documents; when the merge is done, deletions that raced
//     with it are re-applied to the new segment through DocumentNumbers(); a
//     merge may be cancelled at a seam event or hit a failing writer - then
//     nothing changes;
//   - a restart forgets every object and reloads the registered files.
//
// Invariant after every step: every live document is found exactly once (by
// its _id term, with its stored values and its other terms), no dead document
// is found. The scenario contributes to C02, C03, C12, C15 and C18.

type LifeStep struct {
	Kind    int    `json:"kind"`              // 0 index, 1 delete, 2 merge, 3 restart
	Batch   []Item `json:"batch,omitempty"`   // index
	Mode    uint32 `json:"mode,omitempty"`    // index / merge chunk mode
	FailAt  int    `json:"fail_at,omitempty"` // index/merge: >0: the writer fails after FailAt-1 bytes
	File    bool   `json:"file,omitempty"`    // load the result file-backed
	Victims []int  `json:"victims,omitempty"` // delete: indices into the list of live document ids
	ByTerm  bool   `json:"by_term,omitempty"` // delete: by a (field,term) of the first victim instead of by _id
	Segs    []int  `json:"segs,omitempty"`    // merge: which live segments (indices mod)
	Cancel  int    `json:"cancel,omitempty"`  // merge: >0: close the channel at seam event Cancel-1
	Racing  []int  `json:"racing,omitempty"`  // merge: victims deleted by the foreground task while the merge runs
	Public  bool   `json:"public,omitempty"`
	Buf     int    `json:"buf,omitempty"`
}

type LifeCase struct {
	DV    []string   `json:"dv,omitempty"`
	Steps []LifeStep `json:"steps"`
}

func init() {
	register(&Scenario{
		Name: "lifecycle",
		Rule: "non-trivial = the run contains a merge that completed over >=2 documents, or a racing delete re-applied through DocumentNumbers(), or a failed/cancelled persist or merge followed by further steps; distinct = distinct case JSON (the schedule is part of the case)",
		Gen:  genLifeCase,
		Run:  runLifeCase,
	})
}

func genLifeCase(t *rapid.T, prop string) *Case {
	o := WorldOpts{NoExtremes: true, MaxTinyDocs: 5, FewFields: rapid.IntRange(0, 1).Draw(t, "few") == 0}
	o.defaults()
	s := genSchema(t, &o)
	lc := &LifeCase{DV: s.dvList()}
	n := rapid.IntRange(2, 12).Draw(t, "nsteps")
	for i := 0; i < n; i++ {
		st := LifeStep{Kind: rapid.SampledFrom([]int{0, 0, 0, 1, 1, 2, 2, 2, 3}).Draw(t, "kind")}
		if i == 0 {
			st.Kind = 0
		}
		switch st.Kind {
		case 0:
			k := rapid.IntRange(1, 5).Draw(t, "ndocs")
			for j := 0; j < k; j++ {
				d := genDoc(t, s)
				st.Batch = append(st.Batch, Item{Doc: &d})
			}
			st.Mode = rapid.SampledFrom(chunkModes).Draw(t, "mode")
			st.File = rapid.IntRange(0, 1).Draw(t, "file") == 1
			if rapid.IntRange(0, 5).Draw(t, "persistfails") == 0 {
				st.FailAt = 1 + rapid.IntRange(0, 400).Draw(t, "failat")
			}
		case 1:
			k := rapid.IntRange(1, 3).Draw(t, "nvictims")
			for j := 0; j < k; j++ {
				st.Victims = append(st.Victims, rapid.IntRange(0, 40).Draw(t, "victim"))
			}
			st.ByTerm = rapid.IntRange(0, 3).Draw(t, "byterm") == 0
		case 2:
			k := rapid.IntRange(1, 4).Draw(t, "nsegs")
			for j := 0; j < k; j++ {
				st.Segs = append(st.Segs, rapid.IntRange(0, 7).Draw(t, "seg"))
			}
			st.Mode = rapid.SampledFrom(chunkModes).Draw(t, "mode")
			st.Public = rapid.IntRange(0, 1).Draw(t, "public") == 0
			st.Buf = rapid.SampledFrom([]int{1, 7, 64, 4096}).Draw(t, "buf")
			st.File = rapid.IntRange(0, 1).Draw(t, "file") == 1
			switch rapid.IntRange(0, 5).Draw(t, "mergefault") {
			case 0:
				st.Cancel = 1 + rapid.IntRange(0, 60).Draw(t, "cancel")
			case 1:
				st.FailAt = 1 + rapid.IntRange(0, 600).Draw(t, "failat")
			}
			r := rapid.IntRange(0, 2).Draw(t, "nracing")
			for j := 0; j < r; j++ {
				st.Racing = append(st.Racing, rapid.IntRange(0, 40).Draw(t, "racer"))
			}
		}
		lc.Steps = append(lc.Steps, st)
	}
	return &Case{Life: lc, Sched: genSchedule(t, 30)}
}

type lifeSeg struct {
	img     []byte
	file    bool
	seg     segment.Segment
	deleted *roaring.Bitmap
	ids     []string // _id per document number
}

type lifeDoc struct {
	doc   model.Doc
	batch int
}

func (ls *lifeSeg) load(sched *Sched) *Fail {
	store := StoreMem
	if ls.file {
		store = StoreFile
	}
	sched.Hold()
	seg, _, _, pi, err := LoadView(ls.img, store, sched)
	sched.Release()
	if pi != nil || err != nil {
		return apiFail("C04", "world", "Load(registered segment)", pi, err)
	}
	ls.seg = seg
	sched.WatchMutexes(seg)
	return nil
}

func runLifeCase(c *Case, env *Env) *Result {
	res := &Result{SubRuns: 1}
	sched := NewSched(c.Sched)
	defer res.absorb(sched)
	lc := c.Life
	dv := map[string]bool{}
	for _, n := range lc.DV {
		dv[n] = true
	}
	var segs []*lifeSeg
	live := map[string]*lifeDoc{} // the model: live documents by id
	dead := map[string]bool{}
	batchNo := 0

	liveIDs := func() []string {
		ids := make([]string, 0, len(live))
		for id := range live {
			ids = append(ids, id)
		}
		sort.Strings(ids)
		return ids
	}
	// deleteWhere applies a delete to every registered segment the way Bluge
	// does: resolve the terms per segment, OR into its deletion bitmap.
	deleteTerms := func(terms []segment.Term, what string) *Fail {
		for si, ls := range segs {
			var bm *roaring.Bitmap
			var err error
			pi := Guard(func() { bm, err = ls.seg.DocsMatchingTerms(terms) })
			if pi != nil || err != nil {
				return apiFail("C18", "lifecycle", fmt.Sprintf("DocsMatchingTerms(%s) on live segment %d", what, si), pi, err)
			}
			ls.deleted.Or(bm)
		}
		return nil
	}
	victimTerms := func(victims []int, byTerm bool) ([]segment.Term, string) {
		ids := liveIDs()
		if len(ids) == 0 {
			return nil, ""
		}
		var terms []segment.Term
		var what string
		for vi, v := range victims {
			id := ids[v%len(ids)]
			d := live[id]
			if d == nil {
				continue // already chosen in this step
			}
			if byTerm && vi == 0 {
				// delete everything sharing one (field, term) with the victim
				for _, f := range d.doc.Fields {
					if f.Name != model.IDField && len(f.Terms) > 0 {
						field, term := f.Name, f.Terms[0].T
						for oid, od := range live {
							for _, of := range od.doc.Fields {
								if of.Name != field {
									continue
								}
								for _, ot := range of.Terms {
									if bytes.Equal(ot.T, term) {
										dead[oid] = true
									}
								}
							}
						}
						for oid := range dead {
							delete(live, oid)
						}
						terms = append(terms, simTermRef{f: field, t: term})
						what += fmt.Sprintf(" %s:%q", field, string(term))
						break
					}
				}
				if len(terms) > 0 {
					continue
				}
			}
			terms = append(terms, simTermRef{f: model.IDField, t: []byte(id)})
			what += " _id:" + id
			dead[id] = true
			delete(live, id)
		}
		return terms, what
	}

	// verify: every live document found exactly once, with its content; no dead one
	verify := func(after string) *Fail {
		for _, id := range liveIDs() {
			want := live[id]
			hits := 0
			for si, ls := range segs {
				var bm *roaring.Bitmap
				var err error
				pi := Guard(func() {
					bm, err = ls.seg.DocsMatchingTerms([]segment.Term{simTermRef{f: model.IDField, t: []byte(id)}})
				})
				if pi != nil || err != nil {
					return apiFail("C18", "lifecycle", "DocsMatchingTerms(_id)", pi, err)
				}
				bm.AndNot(ls.deleted)
				it := bm.Iterator()
				for it.HasNext() {
					n := it.Next()
					hits++
					got, f := VisitStored("C06", ls.seg, uint64(n))
					if f != nil {
						return f
					}
					var wantFV []model.FV
					fields := ls.seg.Fields()
					for _, fname := range fields {
						for _, fl := range want.doc.Fields {
							if fl.Name == fname && fl.Store {
								wantFV = append(wantFV, model.FV{F: fname, V: fl.Val})
							}
						}
					}
					if d := model.DiffFV(got, wantFV); d != "" {
						return mismatch("C02", "lifecycle", "content", fmt.Sprintf("after %s: live document %s found in segment %d at number %d with other stored content: %s", after, id, si, n, d))
					}
				}
			}
			if hits != 1 {
				return mismatch("C03", "lifecycle", "live-doc-hits", fmt.Sprintf("after %s: live document %s is found %d times (want exactly once) in %d segments", after, id, hits, len(segs)))
			}
		}
		deadIDs := make([]string, 0, len(dead))
		for id := range dead {
			deadIDs = append(deadIDs, id)
		}
		sort.Strings(deadIDs) // map order must never decide the order of calls into ice
		for _, id := range deadIDs {
			for si, ls := range segs {
				var bm *roaring.Bitmap
				var err error
				pi := Guard(func() {
					bm, err = ls.seg.DocsMatchingTerms([]segment.Term{simTermRef{f: model.IDField, t: []byte(id)}})
				})
				if pi != nil || err != nil {
					return apiFail("C18", "lifecycle", "DocsMatchingTerms(_id)", pi, err)
				}
				bm.AndNot(ls.deleted)
				if !bm.IsEmpty() {
					return mismatch("C03", "lifecycle", "dead-doc-found", fmt.Sprintf("after %s: deleted document %s is still found in segment %d at %v", after, id, si, bm.ToArray()))
				}
			}
		}
		return nil
	}

	for si, st := range lc.Steps {
		after := fmt.Sprintf("step #%d", si)
		switch st.Kind {
		case 0: // index a batch
			sd := &SegDef{Batch: st.Batch, Mode: st.Mode, Norm: si % model.NormKinds}
			docs := ExpandBatch(sd, 1000+batchNo)
			batchNo++
			after += fmt.Sprintf(" (index %d docs)", len(docs))
			var seg segment.Segment
			var err error
			sched.Hold()
			PreBuild(IceImpl, len(docs))
			var size uint64
			pi := Guard(func() { seg, size, err = ice.VerifNew(ToSegmentDocs(docs, dv, sched), model.NormFn(sd.Norm), sd.Mode) })
			PostBuild(IceImpl, len(docs), size)
			if pi != nil || err != nil {
				sched.Release()
				res.Fail = apiFail("C01", "world", "New", pi, err)
				return res
			}
			wr := NewSimWriter(sched)
			if st.FailAt > 0 {
				wr.Fault = &WriteFault{After: st.FailAt - 1}
			}
			var werr error
			pi = Guard(func() { _, werr = seg.WriteTo(wr, nil) })
			sched.Release()
			if pi != nil {
				res.Fail = apiFail("C12", "lifecycle", "Segment.WriteTo", pi, nil)
				return res
			}
			if wr.Fired > 0 {
				res.probe("persist-failed")
				res.NonTrivial = true
				if werr == nil {
					res.Fail = &Fail{Prop: "C12", Oracle: "lifecycle", Kind: "silent-success", Site: "Segment.WriteTo", Detail: fmt.Sprintf("%s: the writer failed after %d bytes, WriteTo reported success", after, st.FailAt-1)}
					return res
				}
				continue // not registered, documents not indexed
			}
			if werr != nil {
				res.Fail = apiFail("C04", "world", "Segment.WriteTo", nil, werr)
				return res
			}
			ls := &lifeSeg{img: wr.Buf, file: st.File, deleted: roaring.New()}
			if f := ls.load(sched); f != nil {
				res.Fail = f
				return res
			}
			for k := range docs {
				id := DocID(1000+batchNo-1, k)
				ls.ids = append(ls.ids, id)
				live[id] = &lifeDoc{doc: docs[k], batch: batchNo - 1}
			}
			segs = append(segs, ls)
		case 1: // delete
			terms, what := victimTerms(st.Victims, st.ByTerm)
			after += " (delete" + what + ")"
			if len(terms) > 0 {
				if f := deleteTerms(terms, what); f != nil {
					res.Fail = f
					return res
				}
			}
		case 2: // background merge with racing deletes
			if len(segs) == 0 {
				continue
			}
			chosen := map[int]bool{}
			var idx []int
			for _, x := range st.Segs {
				k := x % len(segs)
				if !chosen[k] {
					chosen[k] = true
					idx = append(idx, k)
				}
			}
			sort.Ints(idx)
			var inSegs []segment.Segment
			var snap []*roaring.Bitmap
			total, dropped := 0, 0
			for _, k := range idx {
				inSegs = append(inSegs, segs[k].seg)
				snap = append(snap, segs[k].deleted.Clone())
				total += len(segs[k].ids)
				dropped += int(segs[k].deleted.GetCardinality())
			}
			after += fmt.Sprintf(" (merge of %d segments, %d docs, %d deleted)", len(idx), total, dropped)
			wr := NewSimWriter(sched)
			if st.FailAt > 0 {
				wr.Fault = &WriteFault{After: st.FailAt - 1}
			}
			closeCh := make(chan struct{})
			ltk := NewTicker(st.Cancel-1, closeCh, sched)
			wr.OnWrite = ltk.OnWrite
			var nums [][]uint64
			var merr error
			var mpi *PanicInfo
			var racingFail *Fail
			var racingWhat string
			bodies := []func(int){
				func(int) {
					nums, _, mpi, merr = RunMerge(&MergeDef{Public: st.Public, Buf: st.Buf}, st.Mode, inSegs, snap, wr, closeCh)
				},
				func(int) {
					sched.Yield(evOpBoundary, 1)
					terms, what := victimTerms(st.Racing, false)
					racingWhat = what
					if len(terms) > 0 {
						racingFail = deleteTerms(terms, what)
					}
					sched.Yield(evOpBoundary, 2)
				},
			}
			if h := sched.Run(bodies, 30*time.Second); h != nil {
				if h.MutexBlocked {
					res.Fail = &Fail{Prop: "C09", Oracle: "lifecycle", Kind: "hang", Site: "sync.Mutex.Lock", Detail: "blocked forever during a background merge\n" + h.Dump}
					return res
				}
				panic(&HarnessPanic{Msg: "lifecycle merge hung outside ice", Stack: h.Dump})
			}
			if racingFail != nil {
				res.Fail = racingFail
				return res
			}
			if racingWhat != "" {
				after += " racing delete" + racingWhat
			}
			if mpi != nil {
				res.Fail = apiFail("C02", "lifecycle", "merge", mpi, nil)
				return res
			}
			if merr != nil {
				if wr.Fired == 0 && !(ltk.Closed && errors.Is(merr, segment.ErrClosed)) {
					res.Fail = apiFail("C02", "lifecycle", "merge on healthy storage", nil, merr)
					return res
				}
				res.probe("merge-abandoned")
				res.NonTrivial = true
				break // nothing changes
			}
			if wr.Fired > 0 {
				res.Fail = &Fail{Prop: "C12", Oracle: "lifecycle", Kind: "silent-success", Site: "merge", Detail: fmt.Sprintf("%s: the writer failed after %d bytes, the merge reported success", after, st.FailAt-1)}
				return res
			}
			// register the new segment, re-apply deletions that raced with the merge
			ns := &lifeSeg{img: wr.Buf, file: st.File, deleted: roaring.New()}
			if f := ns.load(sched); f != nil {
				res.Fail = f
				return res
			}
			if len(nums) != len(idx) {
				res.Fail = mismatch("C03", "docnums", "outer-length", fmt.Sprintf("%s: DocumentNumbers() has %d slices for %d inputs", after, len(nums), len(idx)))
				return res
			}
			ns.ids = make([]string, ns.seg.Count())
			for j, k := range idx {
				in := segs[k]
				if len(nums[j]) != len(in.ids) {
					res.Fail = mismatch("C03", "docnums", "inner-length", fmt.Sprintf("%s: DocumentNumbers()[%d] has %d entries for %d documents", after, j, len(nums[j]), len(in.ids)))
					return res
				}
				racing := roaring.AndNot(in.deleted, snap[j])
				if !racing.IsEmpty() {
					res.probe("racing-delete-reapplied-through-DocumentNumbers")
					res.NonTrivial = true
				}
				for old, nn := range nums[j] {
					if nn == dropSentinel {
						continue
					}
					if nn >= uint64(len(ns.ids)) {
						res.Fail = mismatch("C03", "docnums", "entry", fmt.Sprintf("%s: DocumentNumbers()[%d][%d]=%d but the merged segment has %d documents", after, j, old, nn, len(ns.ids)))
						return res
					}
					ns.ids[nn] = in.ids[old]
					if racing.Contains(uint32(old)) {
						ns.deleted.Add(uint32(nn))
					}
				}
			}
			if total-dropped >= 2 {
				res.NonTrivial = true
			}
			res.probe("merge-completed")
			var rest []*lifeSeg
			for k, ls := range segs {
				if !chosen[k] {
					rest = append(rest, ls)
				}
			}
			segs = append(rest, ns)
		case 3: // restart: only files and deletion bitmaps survive
			for _, ls := range segs {
				if f := ls.load(sched); f != nil {
					res.Fail = f
					return res
				}
			}
			res.probe("restart")
			after += " (restart)"
		}
		if f := verify(after); f != nil {
			res.Fail = f
			return res
		}
	}
	h := uint64(14695981039346656037)
	for _, ls := range segs {
		h = (h ^ uint64(len(ls.img))) * 1099511628211
	}
	res.Shape = h
	return res
}
