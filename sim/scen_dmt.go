package sim

import (
	"bytes"
	"fmt"

	"github.com/RoaringBitmap/roaring"
	segment "github.com/blugelabs/bluge_segment_api"
	"pgregory.net/rapid"

	"icesim/model"
)

// Scenario "dmt" (C18): DocsMatchingTerms over term lists with repeats,
// absent terms, unknown fields, field switches, 1-hit terms.

type DMTTerm struct {
	Field  int  `json:"field"` // index into fields + [unknown, ""]
	Term   int  `json:"term"`  // index into that field's terms
	Absent bool `json:"absent,omitempty"`
	NilKey bool `json:"nil_key,omitempty"` // an empty term is passed as a nil slice instead of an empty one
}

type DMTCase struct {
	Seg   int         `json:"seg"`
	Lists [][]DMTTerm `json:"lists"`
}

func init() {
	register(&Scenario{
		Name: "dmt",
		Rule: "non-trivial = a list with >=2 entries that switches field, or names an unknown field, or contains an absent or a 1-hit term next to present ones; distinct = distinct case JSON",
		Gen:  genDMTCase,
		Run:  runDMTCase,
	})
}

func genDMTCase(t *rapid.T, prop string) *Case {
	o := WorldOpts{MinBuilds: 1, MaxBuilds: 2, MaxMerges: 2, BigPct: 2, HugePct: 30, MaxTinyDocs: 8, AllowNoID: true}
	if rapid.IntRange(0, 1).Draw(t, "swarm-nolocs") == 0 {
		o.NoLocs = true
	}
	wd := GenWorld(t, o)
	dc := &DMTCase{Seg: rapid.IntRange(0, 7).Draw(t, "seg")}
	nl := rapid.IntRange(1, 3).Draw(t, "nlists")
	for i := 0; i < nl; i++ {
		n := rapid.IntRange(0, 12).Draw(t, "nterms")
		if rapid.IntRange(0, 9).Draw(t, "longlist") == 0 {
			n = rapid.SampledFrom([]int{63, 64, 65, 100, 300}).Draw(t, "nlong")
		}
		var list []DMTTerm
		for j := 0; j < n; j++ {
			list = append(list, DMTTerm{
				Field:  rapid.IntRange(0, 8).Draw(t, "field"),
				Term:   rapid.IntRange(0, 12).Draw(t, "term"),
				Absent: rapid.IntRange(0, 5).Draw(t, "absent") == 0,
				NilKey: rapid.IntRange(0, 3).Draw(t, "nilkey") == 0,
			})
		}
		dc.Lists = append(dc.Lists, list)
	}
	return &Case{World: wd, DMT: dc}
}

func runDMTCase(c *Case, env *Env) *Result {
	res := &Result{SubRuns: 1}
	sched := NewSched(nil)
	defer res.absorb(sched)
	w, fail := BuildWorldFor(env.Prop, c.World, sched)
	if fail != nil {
		res.Fail = fail
		return res
	}
	res.Shape = worldShape(w)
	dc := c.DMT
	ws := w.Segs[dc.Seg%len(w.Segs)]
	exp := ws.Exp()
	names := append(append([]string(nil), ws.Fields...), model.UnknownField, "")
	pool := termPool(ws)
	for li, list := range dc.Lists {
		var terms []segment.Term
		want := map[uint32]bool{}
		var desc []string
		prevField := ""
		switches, unknown, absent, onehit := 0, 0, 0, 0
		for i, dt := range list {
			field := names[dt.Field%len(names)]
			all := exp.Dicts[field]
			var term []byte
			if !dt.Absent && len(all) > 0 {
				term = all[dt.Term%len(all)].Term
			} else {
				// a term text that exists somewhere in the segment (usually in
				// another field), or one that exists nowhere
				term = pool[dt.Term%len(pool)]
			}
			found := false
			for _, to := range all {
				if bytes.Equal(to.Term, term) {
					found = true
					for _, p := range to.Posts {
						want[uint32(p.Doc)] = true
					}
					if ws.Kind == model.Merged && len(to.Posts) == 1 && to.Posts[0].Freq == 1 && len(to.Posts[0].Locs) == 0 {
						onehit++
					}
				}
			}
			if !found {
				absent++
			}
			if field == model.UnknownField || field == "" {
				unknown++
			}
			if i > 0 && field != prevField {
				switches++
			}
			prevField = field
			if len(term) == 0 && dt.NilKey {
				term = nil
				res.probe("empty-term-as-nil-slice")
			}
			terms = append(terms, simTermRef{f: field, t: term})
			desc = append(desc, fmt.Sprintf("%s:%q", field, string(term)))
		}
		if len(list) >= 2 && (switches > 0 || unknown > 0 || absent > 0 || onehit > 0) {
			res.NonTrivial = true
		}
		res.probeN("field-switch", switches)
		res.probeN("unknown-field-entry", unknown)
		res.probeN("absent-term-entry", absent)
		res.probeN("1-hit-term-entry", onehit)
		if len(list) == 0 {
			res.probe("empty-list")
		}
		if len(list) >= 64 {
			res.probe("list-of-64-or-more-entries")
		}
		// every list is asked twice; the bitmap returned the first time belongs to the
		// caller, who scribbles on it (an index writer ORs further deletions into it)
		// before asking again
		for round := 0; round < 2; round++ {
			var bm *roaring.Bitmap
			var err error
			pi := Guard(func() { bm, err = ws.Seg.DocsMatchingTerms(terms) })
			where := fmt.Sprintf("seg %d (%s, %d docs) list #%d %v", ws.Idx, ws.Def.Store, len(ws.Docs), li, desc)
			if round == 1 {
				where += " (asked again after the caller modified the bitmap returned the first time)"
			}
			if pi != nil {
				res.Fail = &Fail{Prop: "C18", Oracle: "dmt", Kind: "panic", Site: pi.Site, Detail: where + " panicked: " + pi.Msg}
				return res
			}
			if err != nil {
				res.Fail = &Fail{Prop: "C18", Oracle: "dmt", Kind: "error", Site: "DocsMatchingTerms", Detail: fmt.Sprintf("%s: %v", where, err)}
				return res
			}
			if bm == nil {
				res.Fail = mismatch("C18", "dmt", "nil-bitmap", where+": returned a nil bitmap without error")
				return res
			}
			if int(bm.GetCardinality()) != len(want) {
				res.Fail = mismatch("C18", "dmt", "set", fmt.Sprintf("%s: returned %d documents %v, want %d", where, bm.GetCardinality(), head(bm.ToArray(), 12), len(want)))
				return res
			}
			for d := range want {
				if !bm.Contains(d) {
					res.Fail = mismatch("C18", "dmt", "set", fmt.Sprintf("%s: document %d missing from %v", where, d, head(bm.ToArray(), 12)))
					return res
				}
			}
			if li%2 == 0 {
				bm.AddRange(0, uint64(len(ws.Docs))+3)
			} else {
				bm.Clear()
				bm.Add(uint32(len(ws.Docs)) + 7)
			}
		}
	}
	return res
}

func head(a []uint32, n int) []uint32 {
	if len(a) > n {
		return a[:n]
	}
	return a
}

// termPool: every term text occurring anywhere in the segment, plus one that
// occurs nowhere. Lookups of "absent" terms draw from it, so that the text
// usually exists in some other field.
func termPool(ws *WSeg) [][]byte {
	seen := map[string]bool{}
	var pool [][]byte
	exp := ws.Exp()
	for _, f := range exp.Fields {
		for _, to := range exp.Dicts[f] {
			if !seen[string(to.Term)] {
				seen[string(to.Term)] = true
				pool = append(pool, to.Term)
			}
		}
	}
	return append(pool, []byte("absent-term"))
}
