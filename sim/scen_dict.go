package sim

import (
	"bytes"
	"fmt"

	segment "github.com/blugelabs/bluge_segment_api"
	"pgregory.net/rapid"

	"icesim/model"
)

// Scenario "dictionary" (C08): dictionary enumeration with ranges and
// automata on built and merged segments, entry counts, Contains and
// PostingsList for present/absent terms, unknown fields.

type DictQuery struct {
	Field  int          `json:"field"` // index into fields + [unknown, ""]
	Start  *model.Bytes `json:"start,omitempty"`
	End    *model.Bytes `json:"end,omitempty"`
	Auto   int          `json:"auto,omitempty"` // 0 none, 1 prefix, 2 accept-all, 3 contains-byte
	AutoP  model.Bytes  `json:"auto_p,omitempty"`
	Probes []int        `json:"probes,omitempty"` // indices into vocab + [absent]: Contains / PostingsList lookups
	Stop   int          `json:"stop,omitempty"`   // >0: the enumeration is abandoned after Stop entries and the iterator closed
}

type DictCase struct {
	Seg     int         `json:"seg"`
	Queries []DictQuery `json:"queries"`
}

func init() {
	register(&Scenario{
		Name: "dictionary",
		Rule: "non-trivial = a query enumerates >=2 terms of a known field, or restricts by range/automaton, or runs on a merged segment (mixed 1-hit / general encodings); distinct = distinct case JSON",
		Gen:  genDictCase,
		Run:  runDictCase,
	})
}

// ---- small DFAs satisfying segment.Automaton ------------------------------------

type prefixDFA struct{ p []byte }

func (a *prefixDFA) Start() int                 { return 0 }
func (a *prefixDFA) IsMatch(s int) bool         { return s == len(a.p) }
func (a *prefixDFA) CanMatch(s int) bool        { return s <= len(a.p) }
func (a *prefixDFA) WillAlwaysMatch(s int) bool { return s == len(a.p) }
func (a *prefixDFA) Accept(s int, b byte) int {
	if s == len(a.p) {
		return s
	}
	if s < len(a.p) && a.p[s] == b {
		return s + 1
	}
	return len(a.p) + 1
}

type allDFA struct{}

func (allDFA) Start() int               { return 0 }
func (allDFA) IsMatch(int) bool         { return true }
func (allDFA) CanMatch(int) bool        { return true }
func (allDFA) WillAlwaysMatch(int) bool { return true }
func (allDFA) Accept(int, byte) int     { return 0 }

type containsDFA struct{ b byte }

func (a containsDFA) Start() int                 { return 0 }
func (a containsDFA) IsMatch(s int) bool         { return s == 1 }
func (a containsDFA) CanMatch(int) bool          { return true }
func (a containsDFA) WillAlwaysMatch(s int) bool { return s == 1 }
func (a containsDFA) Accept(s int, b byte) int {
	if s == 1 || b == a.b {
		return 1
	}
	return 0
}

func genBound(t *rapid.T, label string) *model.Bytes {
	if rapid.IntRange(0, 2).Draw(t, label+"-nil") == 0 {
		return nil
	}
	base := []byte(rapid.SampledFrom(vocab).Draw(t, label))
	switch rapid.IntRange(0, 3).Draw(t, label+"-mod") {
	case 0:
		base = append(append([]byte(nil), base...), 0)
	case 1:
		if len(base) > 0 {
			base = base[:len(base)-1]
		}
	case 2:
		base = append(append([]byte(nil), base...), 0xff)
	}
	if len(base) == 0 {
		base = []byte{0}
	}
	b := model.Bytes(base)
	return &b
}

func genDictCase(t *rapid.T, prop string) *Case {
	o := WorldOpts{MinBuilds: 1, MaxBuilds: 3, MaxMerges: 2, BigPct: 2, HugePct: 20, MaxTinyDocs: 8}
	if rapid.IntRange(0, 1).Draw(t, "swarm-nolocs") == 0 {
		o.NoLocs = true
	}
	wd := GenWorld(t, o)
	dc := &DictCase{Seg: rapid.IntRange(0, 7).Draw(t, "seg")}
	nq := rapid.IntRange(1, 4).Draw(t, "nq")
	for i := 0; i < nq; i++ {
		q := DictQuery{Field: rapid.IntRange(0, 8).Draw(t, "field")}
		if rapid.IntRange(0, 1).Draw(t, "ranged") == 1 {
			q.Start = genBound(t, "start")
			q.End = genBound(t, "end")
			if q.Start != nil && q.End != nil && bytes.Compare(*q.Start, *q.End) > 0 {
				q.Start, q.End = q.End, q.Start
			}
		}
		q.Auto = rapid.SampledFrom([]int{0, 0, 0, 1, 1, 2, 3}).Draw(t, "auto")
		if q.Auto == 1 {
			v := rapid.SampledFrom(vocab).Draw(t, "prefix")
			if len(v) > 2 {
				v = v[:rapid.IntRange(1, 2).Draw(t, "plen")]
			}
			q.AutoP = model.Bytes(v)
		} else if q.Auto == 3 {
			q.AutoP = model.Bytes{rapid.SampledFrom([]byte{'a', 'b', 0, 0xfe, 's', '1'}).Draw(t, "byte")}
		}
		if rapid.IntRange(0, 3).Draw(t, "abandon") == 0 {
			q.Stop = rapid.IntRange(1, 3).Draw(t, "stop")
		}
		np := rapid.IntRange(0, 4).Draw(t, "nprobes")
		for j := 0; j < np; j++ {
			q.Probes = append(q.Probes, rapid.IntRange(0, len(vocab)).Draw(t, "probe"))
		}
		dc.Queries = append(dc.Queries, q)
	}
	return &Case{World: wd, DictQ: dc}
}

func runDictCase(c *Case, env *Env) *Result {
	res := &Result{SubRuns: 1}
	sched := NewSched(nil)
	defer res.absorb(sched)
	w, fail := BuildWorldFor(env.Prop, c.World, sched)
	if fail != nil {
		res.Fail = fail
		return res
	}
	res.Shape = worldShape(w)
	dc := c.DictQ
	ws := w.Segs[dc.Seg%len(w.Segs)]
	exp := ws.Exp()
	names := append(append([]string(nil), ws.Fields...), model.UnknownField, "")
	if ws.Kind == model.Merged {
		res.probe("merged-segment")
	}
	for qi, q := range dc.Queries {
		field := names[q.Field%len(names)]
		all := exp.Dicts[field] // nil for unknown fields
		var auto segment.Automaton
		match := func(term []byte) bool { return true }
		switch q.Auto {
		case 1:
			p := []byte(q.AutoP)
			auto = &prefixDFA{p: p}
			match = func(term []byte) bool { return bytes.HasPrefix(term, p) }
		case 2:
			auto = allDFA{}
		case 3:
			if len(q.AutoP) > 0 {
				b := q.AutoP[0]
				auto = containsDFA{b: b}
				match = func(term []byte) bool { return bytes.IndexByte(term, b) >= 0 }
			}
		}
		var start, end []byte
		if q.Start != nil && len(*q.Start) > 0 {
			start = *q.Start
		}
		if q.End != nil && len(*q.End) > 0 {
			end = *q.End
		}
		var want []model.TermObs
		oneHit, general := 0, 0
		for _, to := range all {
			if start != nil && bytes.Compare(to.Term, start) < 0 {
				continue
			}
			if end != nil && bytes.Compare(to.Term, end) >= 0 {
				continue
			}
			if !match(to.Term) {
				continue
			}
			want = append(want, to)
			if ws.Kind == model.Merged && len(to.Posts) == 1 && to.Posts[0].Freq == 1 && len(to.Posts[0].Locs) == 0 {
				oneHit++
			} else {
				general++
			}
		}
		if len(want) >= 2 || (len(all) > 0 && (auto != nil || start != nil || end != nil)) || ws.Kind == model.Merged {
			res.NonTrivial = true
		}
		if oneHit > 0 && general > 0 {
			res.probe("iteration-mixes-1hit-and-general")
		}
		if len(all) == 0 {
			res.probe("empty-or-unknown-field")
		}
		if auto != nil {
			res.probe("automaton")
		}
		if start != nil || end != nil {
			res.probe("range")
		}
		where := fmt.Sprintf("seg %d (%s) query #%d field %q range [%q,%q) auto %d/%q", ws.Idx, ws.Def.Store, qi, field, start, end, q.Auto, string(q.AutoP))
		var f *Fail
		pi := Guard(func() {
			dict, err := ws.Seg.Dictionary(field)
			if err != nil {
				f = apiFail("C08", "dictionary", "Dictionary", nil, err)
				return
			}
			it := dict.Iterator(auto, start, end)
			var got []model.TermObs
			for {
				e, err := it.Next()
				if err != nil {
					f = apiFail("C08", "dictionary", "DictionaryIterator.Next", nil, err)
					return
				}
				if e == nil {
					break
				}
				got = append(got, model.TermObs{Term: model.Bytes(e.Term()), Count: e.Count()})
				if q.Stop > 0 && len(got) >= q.Stop {
					break
				}
				if len(got) > 1<<20 {
					f = mismatch("C08", "dictionary", "termination", where+": iterator does not terminate")
					return
				}
			}
			if q.Stop > 0 && len(got) >= q.Stop {
				// abandoned: the caller is done with this iterator
				if err := it.Close(); err != nil {
					f = apiFail("C08", "dictionary", "DictionaryIterator.Close", nil, err)
					return
				}
				res.probe("enumeration-abandoned-and-closed")
				if len(want) > q.Stop {
					want = want[:q.Stop]
				}
			} else {
				// nil must stay nil
				if e, err := it.Next(); e != nil || err != nil {
					f = mismatch("C08", "dictionary", "end", fmt.Sprintf("%s: Next after the end returned %v, %v", where, e, err))
					return
				}
				_ = it.Close()
			}
			for i := 0; i < len(got) || i < len(want); i++ {
				switch {
				case i >= len(got):
					f = mismatch("C08", "dictionary", "terms", fmt.Sprintf("%s: term #%d %q missing (got %d terms, want %d)", where, i, string(want[i].Term), len(got), len(want)))
				case i >= len(want):
					f = mismatch("C08", "dictionary", "terms", fmt.Sprintf("%s: unexpected term #%d %q (got %d terms, want %d)", where, i, string(got[i].Term), len(got), len(want)))
				case !bytes.Equal(got[i].Term, want[i].Term):
					f = mismatch("C08", "dictionary", "terms", fmt.Sprintf("%s: term #%d got %q want %q", where, i, string(got[i].Term), string(want[i].Term)))
				case got[i].Count != want[i].Count:
					f = mismatch("C08", "dictionary", "entry-count", fmt.Sprintf("%s: term %q entry count %d, but %d documents contain it", where, string(got[i].Term), got[i].Count, want[i].Count))
				}
				if f != nil {
					return
				}
			}
			// Contains / PostingsList agree with the term set
			present := map[string]uint64{}
			for _, to := range all {
				present[string(to.Term)] = to.Count
			}
			var prevPL segment.PostingsList
			for pi, pr := range q.Probes {
				term := []byte("absent-term")
				if pr < len(vocab) {
					term = []byte(vocab[pr])
				}
				wantN, wantIn := present[string(term)]
				in, err := dict.Contains(term)
				if err != nil {
					f = apiFail("C08", "dictionary", "Contains", nil, err)
					return
				}
				if in != wantIn {
					f = mismatch("C08", "dictionary", "contains", fmt.Sprintf("%s: Contains(%q)=%v want %v", where, string(term), in, wantIn))
					return
				}
				// every other probe recycles the previous probe's list
				var pre segment.PostingsList
				if pi%2 == 1 {
					pre = prevPL
				}
				pl, err := dict.PostingsList(term, nil, pre)
				if err != nil {
					f = apiFail("C08", "dictionary", "PostingsList", nil, err)
					return
				}
				prevPL = pl
				if pl.Count() != wantN {
					f = mismatch("C08", "dictionary", "postings-count", fmt.Sprintf("%s: PostingsList(%q).Count()=%d want %d", where, string(term), pl.Count(), wantN))
					return
				}
				pit, err := pl.Iterator(false, false, false, nil)
				if err != nil {
					f = apiFail("C08", "dictionary", "PostingsList.Iterator", nil, err)
					return
				}
				n := uint64(0)
				for {
					p, err := pit.Next()
					if err != nil {
						f = apiFail("C08", "dictionary", "PostingsIterator.Next", nil, err)
						return
					}
					if p == nil {
						break
					}
					n++
				}
				if n != wantN {
					f = mismatch("C08", "dictionary", "postings-count", fmt.Sprintf("%s: PostingsList(%q) iterates %d postings want %d", where, string(term), n, wantN))
					return
				}
			}
		})
		if pi != nil {
			res.Fail = &Fail{Prop: "C08", Oracle: "dictionary", Kind: "panic", Site: pi.Site, Detail: where + " panicked: " + pi.Msg}
			return res
		}
		if f != nil {
			res.Fail = f
			return res
		}
	}
	return res
}
