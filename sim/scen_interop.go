package sim

import (
	"bytes"
	"compress/gzip"
	"encoding/json"
	"fmt"
	"io"
	"os"
	"path/filepath"
	"sort"

	"pgregory.net/rapid"

	"icesim/model"
)

// Scenario "interop" (C10): two code versions sharing a disk. The same world
// is built by the code under test and by the frozen reference copy; every
// byte image from either writer must be observed identically by both readers,
// memory- and file-backed.
//
// Scenario "golden" (C10): a committed corpus of reference-written files with
// their expected observations; the current reader must reproduce them without
// the reference code being involved.

type InteropCase struct {
	Golden int  `json:"golden,omitempty"` // golden scenario: index into the corpus
	File   bool `json:"file,omitempty"`
}

// GoldenDir is set by the driver to <verif dir>/golden.
var GoldenDir = "/verif/golden"

func init() {
	register(&Scenario{
		Name: "interop",
		Rule: "non-trivial = the world has a segment with >=2 documents sharing a term or a merge with survivors (so that every section of the format is populated); both directions (current writer -> reference reader, reference writer -> current reader) are checked for every segment; distinct = distinct case JSON",
		Gen: func(t *rapid.T, prop string) *Case {
			o := WorldOpts{MinBuilds: 1, MaxBuilds: 3, MaxMerges: 2, BigPct: 6, HugePct: 30, AllowNoID: true, MoreDV: true}
			return &Case{World: GenWorld(t, o), Interop: &InteropCase{}}
		},
		Run: runInteropCase,
	})
	register(&Scenario{
		Name: "golden",
		Rule: "each case loads one file of the committed reference-written corpus (memory- or file-backed) with the current reader and compares every observation with the recorded expectation; non-trivial = the file holds >=1 document; distinct = distinct (file, backing) pairs",
		Gen: func(t *rapid.T, prop string) *Case {
			return &Case{Interop: &InteropCase{Golden: rapid.IntRange(0, 1<<20).Draw(t, "golden"), File: rapid.IntRange(0, 1).Draw(t, "file") == 1}}
		},
		Run: runGoldenCase,
	})
}

func runInteropCase(c *Case, env *Env) *Result {
	res := &Result{SubRuns: 1}
	sched := NewSched(nil)
	defer res.absorb(sched)
	cur, fail := BuildWorldWith(IceImpl, env.Prop, c.World, sched)
	if fail != nil {
		res.Fail = fail
		return res
	}
	ref, fail := BuildWorldWith(RefImpl, env.Prop, c.World, sched)
	if fail != nil {
		panic(&HarnessPanic{Msg: "the frozen reference implementation failed on a valid world: " + fail.String()})
	}
	res.Shape = worldShape(cur)
	for i := range cur.Segs {
		cs, rs := cur.Segs[i], ref.Segs[i]
		if segFacts(cs, res) || (cs.Kind == model.Merged && len(cs.Docs) > 0) {
			res.NonTrivial = true
		}
		if bytes.Equal(cs.Bytes, rs.Bytes) {
			res.probe("writers-byte-identical")
		} else {
			res.probe("writers-differ-bytewise")
		}
		for _, img := range []struct {
			name  string
			bytes []byte
		}{{"current-writer", cs.Bytes}, {"reference-writer", rs.Bytes}} {
			for _, store := range []string{StoreMem, StoreFile} {
				rseg, _, _, pi, err := LoadViewWith(RefImpl, img.bytes, store, sched)
				if pi != nil || err != nil {
					if img.name == "reference-writer" {
						panic(&HarnessPanic{Msg: fmt.Sprintf("reference reader cannot load a reference-written file: %v %v", pi, err)})
					}
					f := apiFail("C10", "interop", "reference-reader.Load", pi, err)
					f.Detail = fmt.Sprintf("seg %d: the pinned reference reader cannot load the file the current code wrote (%s): %s", i, store, f.Detail)
					res.Fail = f
					return res
				}
				cseg, _, _, pi, err := LoadViewWith(IceImpl, img.bytes, store, sched)
				if pi != nil || err != nil {
					f := apiFail("C10", "interop", "current-reader.Load", pi, err)
					f.Detail = fmt.Sprintf("seg %d: the current reader cannot load a file written by the %s (%s): %s", i, img.name, store, f.Detail)
					res.Fail = f
					return res
				}
				ro, f := Observe("C10", rseg, ObsOpts{})
				if f != nil {
					if img.name == "reference-writer" {
						panic(&HarnessPanic{Msg: "reference reader fails on a reference-written file: " + f.String()})
					}
					f.Prop, f.Oracle = "C10", "interop"
					f.Detail = fmt.Sprintf("seg %d: reference reader on the current writer's file (%s): %s", i, store, f.Detail)
					res.Fail = f
					return res
				}
				co, f := Observe("C10", cseg, ObsOpts{})
				if f != nil {
					f.Prop, f.Oracle = "C10", "interop"
					f.Detail = fmt.Sprintf("seg %d: current reader on the %s's file (%s): %s", i, img.name, store, f.Detail)
					res.Fail = f
					return res
				}
				if d := model.Diff(co, ro); d != "" {
					res.Fail = mismatch("C10", "interop", img.name+":"+sectionOf(d), fmt.Sprintf("seg %d (%d docs): the file written by the %s reads differently with the current and the reference reader (%s-backed): %s", i, len(cs.Docs), img.name, store, d))
					return res
				}
				// and both equal the content the model expects (so "identically" cannot mean "identically wrong")
				if d := model.Diff(ro, cs.Exp(), "stats", "counts"); d != "" && img.name == "current-writer" {
					res.Fail = mismatch("C10", "interop", "reference-reader-vs-model:"+sectionOf(d), fmt.Sprintf("seg %d: the reference reader reads the current writer's file, but not as the documents imply: %s", i, d))
					return res
				}
			}
		}
	}
	return res
}

// ---- golden corpus ---------------------------------------------------------------

type GoldenEntry struct {
	Name string     `json:"name"`
	Obs  *model.Obs `json:"obs"`
}

func GoldenFiles() []string {
	m, _ := filepath.Glob(filepath.Join(GoldenDir, "*.ice"))
	sort.Strings(m)
	return m
}

func readGz(path string, v interface{}) error {
	f, err := os.Open(path)
	if err != nil {
		return err
	}
	defer f.Close()
	zr, err := gzip.NewReader(f)
	if err != nil {
		return err
	}
	b, err := io.ReadAll(zr)
	if err != nil {
		return err
	}
	return json.Unmarshal(b, v)
}

func WriteGz(path string, v interface{}) error {
	b, err := json.Marshal(v)
	if err != nil {
		return err
	}
	var buf bytes.Buffer
	zw, _ := gzip.NewWriterLevel(&buf, gzip.BestCompression)
	zw.Write(b)
	zw.Close()
	return os.WriteFile(path, buf.Bytes(), 0o644)
}

var goldenCache = map[string]*model.Obs{}

func runGoldenCase(c *Case, env *Env) *Result {
	res := &Result{SubRuns: 1}
	files := GoldenFiles()
	if len(files) == 0 {
		panic(&HarnessPanic{Msg: "golden corpus is empty: " + GoldenDir})
	}
	path := files[c.Interop.Golden%len(files)]
	img, err := os.ReadFile(path)
	if err != nil {
		panic(&HarnessPanic{Msg: "golden: " + err.Error()})
	}
	want := goldenCache[path]
	if want == nil {
		want = &model.Obs{}
		if err := readGz(path[:len(path)-4]+".obs.json.gz", want); err != nil {
			panic(&HarnessPanic{Msg: "golden: " + err.Error()})
		}
		goldenCache[path] = want
	}
	store := StoreMem
	if c.Interop.File {
		store = StoreFile
	}
	sched := NewSched(nil)
	defer res.absorb(sched)
	seg, _, _, pi, lerr := LoadViewWith(IceImpl, img, store, sched)
	name := filepath.Base(path)
	if pi != nil || lerr != nil {
		f := apiFail("C10", "golden", "current-reader.Load", pi, lerr)
		f.Detail = fmt.Sprintf("golden file %s (%s-backed): %s", name, store, f.Detail)
		res.Fail = f
		return res
	}
	got, f := Observe("C10", seg, ObsOpts{})
	if f != nil {
		f.Prop, f.Oracle = "C10", "golden"
		f.Detail = fmt.Sprintf("golden file %s (%s-backed): %s", name, store, f.Detail)
		res.Fail = f
		return res
	}
	if d := model.Diff(normObs(got), want); d != "" {
		res.Fail = mismatch("C10", "golden", sectionOf(d), fmt.Sprintf("golden file %s (%s-backed, %d docs) written by the reference writer reads differently with the current code: %s", name, store, want.Count, d))
		return res
	}
	res.NonTrivial = want.Count > 0
	res.Shape = uint64(c.Interop.Golden%len(files))*2 + uint64(len(store))
	return res
}

// normObs round-trips an observation through JSON so that nil/empty slices
// compare equal to a decoded expectation.
func normObs(o *model.Obs) *model.Obs {
	b, _ := json.Marshal(o)
	out := &model.Obs{}
	_ = json.Unmarshal(b, out)
	return out
}
