package sim

import (
	"fmt"
	"math"

	"github.com/RoaringBitmap/roaring"
	segment "github.com/blugelabs/bluge_segment_api"

	"icesim/model"
)

// ObsOpts varies things that must not matter to the result.
type ObsOpts struct {
	Reuse      bool // reuse postings lists / iterators across terms (prealloc)
	SkipDicts  bool
	SkipStored bool
	SkipDV     bool
	SkipStats  bool
}

// obsErr builds the Fail for an API call that failed on healthy storage.
func obsErr(prop, site string, pi *PanicInfo, err error) *Fail {
	// reads of stored fields and doc values have their own properties
	switch site {
	case "VisitStoredFields":
		prop = "C06"
	case "VisitDocumentValues", "DocumentValueReader":
		prop = "C07"
	case "CollectionStats":
		prop = "C16"
	}
	if pi != nil {
		return &Fail{Prop: prop, Oracle: "observe", Kind: "panic", Site: pi.Site, Detail: fmt.Sprintf("%s panicked: %s", site, pi.Msg)}
	}
	return &Fail{Prop: prop, Oracle: "observe", Kind: "error", Site: site, Detail: fmt.Sprintf("%s returned error on healthy storage: %v", site, err)}
}

// ReadPosting copies a posting out of the iterator's shared instance.
func ReadPosting(p segment.Posting, freq, norm, locs bool) model.PostObs {
	po := model.PostObs{Doc: p.Number()}
	if freq {
		po.Freq = p.Frequency()
	}
	if norm {
		po.Norm = math.Float32bits(float32(p.Norm()))
	}
	if locs {
		for _, l := range p.Locations() {
			po.Locs = append(po.Locs, model.LocObs{F: l.Field(), P: l.Pos(), S: l.Start(), E: l.End()})
		}
	}
	// Real callers renumber the posting they were handed (Bluge adds the
	// segment's base to make a global document number): the posting belongs to
	// the caller until the next call, and what the caller writes into it must not
	// steer the iterator.
	switch po.Doc % 3 {
	case 0:
		p.SetNumber(po.Doc + 1<<33)
	case 1:
		p.SetNumber(0)
	}
	return po
}

// ReadPostings walks a whole postings list with Next.
func ReadPostings(prop string, dict segment.Dictionary, term []byte, except *roaring.Bitmap,
	prePL segment.PostingsList, preIt segment.PostingsIterator) ([]model.PostObs, segment.PostingsList, segment.PostingsIterator, *Fail) {
	var pl segment.PostingsList
	var it segment.PostingsIterator
	var err error
	var out []model.PostObs
	pi := Guard(func() {
		pl, err = dict.PostingsList(term, except, prePL)
		if err != nil {
			return
		}
		it, err = pl.Iterator(true, true, true, preIt)
		if err != nil {
			return
		}
		for {
			var p segment.Posting
			p, err = it.Next()
			if err != nil || p == nil {
				return
			}
			out = append(out, ReadPosting(p, true, true, true))
			if len(out) > 1<<22 {
				err = fmt.Errorf("postings iterator does not terminate")
				return
			}
		}
	})
	if pi != nil || err != nil {
		return nil, nil, nil, obsErr(prop, "PostingsList/Iterator/Next", pi, err)
	}
	return out, pl, it, nil
}

// VisitStored collects the stored values of one document.
func VisitStored(prop string, seg segment.Segment, n uint64) ([]model.FV, *Fail) {
	var out []model.FV
	var err error
	pi := Guard(func() {
		err = seg.VisitStoredFields(n, func(field string, value []byte) bool {
			out = append(out, model.FV{F: field, V: append(model.Bytes{}, value...)})
			return true
		})
	})
	if pi != nil || err != nil {
		return nil, obsErr(prop, "VisitStoredFields", pi, err)
	}
	return out, nil
}

// Observe reads a segment exhaustively through the public API.
func Observe(prop string, seg segment.Segment, opts ObsOpts) (*model.Obs, *Fail) {
	Heartbeat()
	o := &model.Obs{
		Dicts: map[string][]model.TermObs{},
		Stats: map[string]model.StatObs{},
	}
	var fail *Fail
	pi := Guard(func() {
		o.Count = seg.Count()
		o.Fields = append([]string(nil), seg.Fields()...)
	})
	if pi != nil {
		return nil, obsErr(prop, "Count/Fields", pi, nil)
	}
	names := append(append([]string(nil), o.Fields...), model.UnknownField)

	if !opts.SkipDicts {
		var prePL segment.PostingsList
		var preIt segment.PostingsIterator
		for _, f := range names {
			var dict segment.Dictionary
			var err error
			var entries []model.TermObs
			pi := Guard(func() {
				dict, err = seg.Dictionary(f)
				if err != nil {
					return
				}
				it := dict.Iterator(nil, nil, nil)
				for {
					var e segment.DictionaryEntry
					e, err = it.Next()
					if err != nil || e == nil {
						return
					}
					entries = append(entries, model.TermObs{Term: model.Bytes(e.Term()), Count: e.Count()})
					if len(entries) > 1<<22 {
						err = fmt.Errorf("dictionary iterator does not terminate")
						return
					}
				}
			})
			if pi != nil || err != nil {
				return nil, obsErr(prop, "Dictionary/Iterator/Next", pi, err)
			}
			for i := range entries {
				var posts []model.PostObs
				var a, b segment.PostingsList
				var c segment.PostingsIterator
				if opts.Reuse {
					a = prePL
					c = preIt
				}
				posts, b, c, fail = ReadPostings(prop, dict, entries[i].Term, nil, a, c)
				if fail != nil {
					return nil, fail
				}
				if opts.Reuse {
					prePL, preIt = b, c
				}
				entries[i].Posts = posts
			}
			if entries == nil {
				entries = []model.TermObs{}
			}
			o.Dicts[f] = entries
		}
	}

	if !opts.SkipStored {
		o.Stored = make([][]model.FV, o.Count)
		for n := uint64(0); n < o.Count; n++ {
			o.Stored[n], fail = VisitStored(prop, seg, n)
			if fail != nil {
				return nil, fail
			}
		}
	}

	if !opts.SkipDV {
		o.DV = make([][]model.FV, o.Count)
		var dvr segment.DocumentValueReader
		var err error
		pi := Guard(func() { dvr, err = seg.DocumentValueReader(names) })
		if pi != nil || err != nil {
			return nil, obsErr(prop, "DocumentValueReader", pi, err)
		}
		for n := uint64(0); n < o.Count; n++ {
			var vals []model.FV
			pi := Guard(func() {
				err = dvr.VisitDocumentValues(n, func(field string, term []byte) {
					vals = append(vals, model.FV{F: field, V: append(model.Bytes{}, term...)})
				})
			})
			if pi != nil || err != nil {
				return nil, obsErr(prop, "VisitDocumentValues", pi, err)
			}
			o.DV[n] = vals
		}
	}

	if !opts.SkipStats {
		for _, f := range names {
			var cs segment.CollectionStats
			var err error
			pi := Guard(func() { cs, err = seg.CollectionStats(f) })
			if pi != nil || err != nil {
				return nil, obsErr(prop, "CollectionStats", pi, err)
			}
			o.Stats[f] = model.StatObs{Total: cs.TotalDocumentCount(), Docs: cs.DocumentCount(), Sum: cs.SumTotalTermFrequency()}
		}
	}
	return o, nil
}
