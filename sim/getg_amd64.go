//go:build amd64

package sim

func getg() uintptr
