package sim

import (
	"fmt"
	"os"
	"reflect"
	"runtime"
	"strings"
	"sync"
	"time"
	"unsafe"
)

// Deterministic cooperative scheduler.
//
// Tasks are real goroutines of which exactly one holds the baton. The holder
// reaches a yield point whenever ice calls back into harness code (storage
// read/write, visitor callback, document iterator callback) and between two
// operations of its program. The schedule is a list of small integers; an
// element k means "let k/5 further yield points pass, then hand the baton to
// runnable[(k%5)-1]" (k%5 == 0: keep running). When the schedule is exhausted
// the holder runs to completion and the others follow in id order, so the
// all-zero schedule is the sequential execution.
//
// All scheduler state is touched only by the baton holder, i.e. strictly
// serially, but through a baton the race detector cannot see (see
// baton_pipe.go); every function touching it is therefore //go:norace and
// self-contained (fixed-size arrays, no calls into instrumented code).

const maxTasks = 8

// event kinds folded into the trace hash
const (
	evRead = 1 + iota
	evWrite
	evVisitor
	evDocIter
	evOpBoundary
	evTaskEnd
	evFault
	evCancel
)

type Sched struct {
	n        int
	cur      int
	active   bool
	done     [maxTasks]bool
	batons   [maxTasks]baton
	plan     []int
	pos      int
	gap      int      // yield points already passed while waiting for plan[pos]
	mutexes  []*int32 // state words of every segment mutex in the world
	Switches int
	Yields   int
	Skipped  int // yields suppressed because a segment mutex was held
	Events   int
	Trace    uint64 // rolling hash of (task, kind, arg) of every seam event
	SchedSig uint64 // rolling hash of the switches actually taken
	hold     int    // >0: yields are disabled (harness-internal calls into ice)
}

func NewSched(plan []int) *Sched {
	return &Sched{plan: plan, cur: -1, Trace: 1469598103934665603, SchedSig: 1469598103934665603}
}

// WatchMutexes registers the sync.Mutex fields of a segment object.
func (s *Sched) WatchMutexes(seg interface{}) {
	s.mutexes = append(s.mutexes, mutexWords(seg)...)
}

//go:norace
func (s *Sched) anyLocked() bool {
	for _, w := range s.mutexes {
		if *w&1 != 0 {
			return true
		}
	}
	return false
}

// AnyLocked reports whether a watched segment mutex is currently held.
//
//go:norace
func (s *Sched) AnyLocked() bool { return !noLockCheck && s.anyLocked() }

// noLockCheck (ICESIM_NO_LOCKCHECK=1) disables the lock invariant so that the
// hang detector - the backstop behind it - can be exercised on its own.
var noLockCheck = os.Getenv("ICESIM_NO_LOCKCHECK") != ""

// Cur returns the id of the running task (0 outside Run).
//
//go:norace
func (s *Sched) Cur() int {
	if s == nil || s.cur < 0 {
		return 0
	}
	return s.cur
}

//go:norace
func (s *Sched) note(kind int, arg uint64) {
	if s == nil {
		return
	}
	s.Events++
	h := s.Trace
	h = (h ^ uint64(s.cur+1)) * 1099511628211
	h = (h ^ uint64(kind)) * 1099511628211
	h = (h ^ arg) * 1099511628211
	s.Trace = h
}

// Hold disables yielding (used while the harness itself calls into ice on
// behalf of no task, or inside regions that must not be interleaved).
//
//go:norace
func (s *Sched) Hold() {
	if s != nil {
		s.hold++
	}
}

//go:norace
func (s *Sched) Release() {
	if s != nil {
		s.hold--
	}
}

// pick consumes (at most) one schedule element and returns the task to switch
// to, or -1. An element k encodes "let k/5 further yield points pass, then
// switch to runnable[(k%5)-1]" (k%5 == 0: no switch). At a task's end the gap
// is ignored: somebody has to run.
//
//go:norace
func (s *Sched) pick(mustSwitch bool) int {
	var runnable [maxTasks]int
	nr := 0
	for i := 0; i < s.n; i++ {
		if !s.done[i] && i != s.cur {
			runnable[nr] = i
			nr++
		}
	}
	if nr == 0 {
		return -1
	}
	k := 0
	if s.pos < len(s.plan) {
		k = s.plan[s.pos]
		if k < 0 {
			k = -k
		}
		if !mustSwitch && s.gap < k/5 {
			s.gap++
			return -1
		}
		s.gap = 0
		s.pos++
	}
	to := k % 5
	if to == 0 {
		if mustSwitch {
			return runnable[0]
		}
		return -1
	}
	return runnable[(to-1)%nr]
}

// Yield is a scheduling point. kind/arg describe the seam event.
//
//go:norace
func (s *Sched) Yield(kind int, arg uint64) {
	if s == nil {
		return
	}
	s.note(kind, arg)
	if !s.active || s.hold > 0 {
		return
	}
	s.Yields++
	if s.anyLocked() {
		s.Skipped++
		return
	}
	to := s.pick(false)
	if to < 0 {
		return
	}
	from := s.cur
	s.Switches++
	s.SchedSig = (s.SchedSig ^ uint64(to+1) ^ uint64(s.Events)<<8) * 1099511628211
	s.cur = to
	s.batons[to].wake()
	s.batons[from].park()
}

//go:norace
func (s *Sched) finish(id int) {
	s.note(evTaskEnd, 0)
	s.done[id] = true
	to := s.pick(true)
	if to < 0 {
		s.cur = -1
		return
	}
	s.cur = to
	s.batons[to].wake()
}

//go:norace
func (s *Sched) start(n int) {
	s.n = n
	s.active = n > 1
	s.cur = 0
	for i := 0; i < maxTasks; i++ {
		s.done[i] = i >= n
	}
}

//go:norace
func (s *Sched) stop() {
	s.active = false
	s.cur = -1
}

// HangInfo describes a run that did not finish.
type HangInfo struct {
	MutexBlocked bool   // some goroutine sits in sync.(*Mutex).Lock below an ice frame
	Dump         string // goroutine dump (trimmed)
}

// Run executes the task bodies under the schedule and returns nil when all
// finished. A non-nil result means the run hung; the goroutines are leaked and
// the process should not run further cases.
func (s *Sched) Run(bodies []func(task int), timeout time.Duration) *HangInfo {
	if len(bodies) > maxTasks {
		panic("too many tasks")
	}
	if len(bodies) == 0 {
		return nil
	}
	for i := range bodies {
		s.batons[i] = newBaton()
	}
	s.start(len(bodies))
	var wg sync.WaitGroup
	for i := range bodies {
		wg.Add(1)
		go func(id int) {
			defer wg.Done()
			if id != 0 {
				s.batons[id].park()
			}
			bodies[id](id)
			s.finish(id)
		}(i)
	}
	doneCh := make(chan struct{})
	go func() { wg.Wait(); close(doneCh) }()
	select {
	case <-doneCh:
		s.stop()
		for i := range bodies {
			s.batons[i].close()
		}
		return nil
	case <-time.After(timeout):
	}
	buf := make([]byte, 1<<20)
	buf = buf[:runtime.Stack(buf, true)]
	return &HangInfo{MutexBlocked: mutexBlockedInIce(string(buf)), Dump: trimDump(string(buf))}
}

func mutexBlockedInIce(dump string) bool {
	for _, g := range strings.Split(dump, "\n\n") {
		head := g
		if i := strings.IndexByte(g, '\n'); i >= 0 {
			head = g[:i]
		}
		blocked := false
		for _, st := range []string{"[sync.Mutex.Lock", "[semacquire", "[sync.RWMutex", "[sync.Cond.Wait", "[sync.WaitGroup.Wait", "[chan receive", "[chan send", "[select"} {
			if strings.Contains(head, st) {
				blocked = true
			}
		}
		// a goroutine blocked on a lock, semaphore, condition or channel with an
		// ice frame on its stack: ice is waiting for something nobody will provide
		if blocked && strings.Contains(g, "github.com/blugelabs/ice/v2.") {
			return true
		}
	}
	return false
}

func trimDump(d string) string {
	if len(d) > 6000 {
		return d[:6000] + "\n...[trimmed]"
	}
	return d
}

// ---- mutex peeking ------------------------------------------------------------

// mutexWords returns pointers to the state word of every sync.Mutex that is a
// direct field of the struct seg points to.
func mutexWords(seg interface{}) []*int32 {
	v := reflect.ValueOf(seg)
	if v.Kind() != reflect.Ptr || v.Elem().Kind() != reflect.Struct {
		return nil
	}
	e := v.Elem()
	var out []*int32
	mt := reflect.TypeOf(sync.Mutex{})
	for i := 0; i < e.NumField(); i++ {
		if e.Type().Field(i).Type == mt {
			out = append(out, (*int32)(unsafe.Pointer(e.Field(i).UnsafeAddr())))
		}
	}
	return out
}

// SelfTestMutexPeek verifies that the state word peek sees Lock/Unlock.
func SelfTestMutexPeek() error {
	type holder struct {
		a int
		m sync.Mutex
	}
	h := &holder{}
	w := mutexWords(h)
	if len(w) != 1 {
		return fmt.Errorf("mutex peek: found %d mutex fields, want 1", len(w))
	}
	if *w[0]&1 != 0 {
		return fmt.Errorf("mutex peek: fresh mutex reads locked")
	}
	h.m.Lock()
	if *w[0]&1 != 1 {
		return fmt.Errorf("mutex peek: locked mutex reads unlocked")
	}
	h.m.Unlock()
	if *w[0]&1 != 0 {
		return fmt.Errorf("mutex peek: unlocked mutex reads locked")
	}
	return nil
}
