package sim

import (
	"fmt"
	"os"
	"reflect"
	"runtime"
	"strings"
	"sync"
	"time"
	"unsafe"
)

// Deterministic cooperative scheduler.
//
// Tasks are real goroutines of which exactly one holds the baton. The holder
// reaches a yield point whenever ice calls back into harness code (storage
// read/write, visitor callback, document iterator callback) and between two
// operations of its program. The schedule is a list of small integers; an
// element k means "let k/5 further yield points pass, then hand the baton to
// runnable[(k%5)-1]" (k%5 == 0: keep running). When the schedule is exhausted
// the holder runs to completion and the others follow in id order, so the
// all-zero schedule is the sequential execution.
//
// All scheduler state is touched only by the baton holder, i.e. strictly
// serially, but through a baton the race detector cannot see (see
// baton_pipe.go); every function touching it is therefore //go:norace and
// self-contained (fixed-size arrays, no calls into instrumented code).

const maxTasks = 8

// event kinds folded into the trace hash
const (
	evRead = 1 + iota
	evWrite
	evVisitor
	evDocIter
	evOpBoundary
	evTaskEnd
	evFault
	evCancel
)

type Sched struct {
	n             int
	cur           int
	active        bool
	done          [maxTasks]bool
	batons        [maxTasks]baton
	gs            [maxTasks]uintptr // goroutine identity of each task (see foreign)
	plan          []int
	pos           int
	gap           int        // yield points already passed while waiting for plan[pos]
	mutexes       []lockWord // state words of every segment lock in the world
	freeRun       int32      // set by the monitor of Run: scheduling abandoned, every task runs freely (see Run)
	ParkUnderLock bool       // yield points under a held lock are honoured (see Yield)
	risky         int32      // a task has been parked while holding a lock: the monitor watches closely
	UnderLockSw   int        // switches taken while a lock was held
	FreeRuns      int        // number of times a run fell back to free running
	ForeignEvents int        // seam events reached by goroutines that are not tasks
	Switches      int
	Yields        int
	Skipped       int // yields suppressed because a segment mutex was held
	Events        int
	Trace         uint64 // rolling hash of (task, kind, arg) of every seam event
	SchedSig      uint64 // rolling hash of the switches actually taken
	hold          int    // >0: yields are disabled (harness-internal calls into ice)
}

func NewSched(plan []int) *Sched {
	return &Sched{plan: plan, cur: -1, Trace: 1469598103934665603, SchedSig: 1469598103934665603}
}

// WatchMutexes registers the sync.Mutex fields of a segment object.
func (s *Sched) WatchMutexes(seg interface{}) {
	s.mutexes = append(s.mutexes, mutexWords(seg)...)
}

//go:norace
func (s *Sched) anyLocked() bool {
	for i := range s.mutexes {
		w := &s.mutexes[i]
		if *w.state&1 != 0 {
			return true
		}
		if w.readers != nil && *w.readers != 0 {
			return true
		}
	}
	return false
}

// AnyLocked reports whether a watched segment mutex is currently held.
//
//go:norace
func (s *Sched) AnyLocked() bool { return !noLockCheck && s.anyLocked() }

// noLockCheck (ICESIM_NO_LOCKCHECK=1) disables the lock invariant so that the
// hang detector - the backstop behind it - can be exercised on its own.
var noLockCheck = os.Getenv("ICESIM_NO_LOCKCHECK") != ""

// Active reports whether a multi-task run is in progress.
//
//go:norace
func (s *Sched) Active() bool { return s != nil && s.active }

// Cur returns the id of the running task (0 outside Run).
//
//go:norace
func (s *Sched) Cur() int {
	if s == nil || s.cur < 0 {
		return 0
	}
	return s.cur
}

// foreign reports whether the caller is not the goroutine of the running task:
// a goroutine the code under test started itself (say, to prefetch in
// parallel). Such goroutines reach the seams like anyone else but are no
// business of the scheduler: they neither yield nor enter the trace.
//
//go:norace
func (s *Sched) foreign() bool {
	if !s.active {
		return false
	}
	c := s.cur
	return c >= 0 && c < maxTasks && s.gs[c] != 0 && s.gs[c] != getg()
}

//go:norace
func (s *Sched) note(kind int, arg uint64) {
	if s == nil {
		return
	}
	if s.foreign() {
		s.ForeignEvents++
		return
	}
	s.Events++
	if s.freeRun != 0 {
		return
	}
	h := s.Trace
	h = (h ^ uint64(s.cur+1)) * 1099511628211
	h = (h ^ uint64(kind)) * 1099511628211
	h = (h ^ arg) * 1099511628211
	s.Trace = h
}

// Hold disables yielding (used while the harness itself calls into ice on
// behalf of no task, or inside regions that must not be interleaved).
//
//go:norace
func (s *Sched) Hold() {
	if s != nil {
		s.hold++
	}
}

//go:norace
func (s *Sched) Release() {
	if s != nil {
		s.hold--
	}
}

// pick consumes (at most) one schedule element and returns the task to switch
// to, or -1. An element k encodes "let k/5 further yield points pass, then
// switch to runnable[(k%5)-1]" (k%5 == 0: no switch). At a task's end the gap
// is ignored: somebody has to run.
//
//go:norace
func (s *Sched) pick(mustSwitch bool) int {
	var runnable [maxTasks]int
	nr := 0
	for i := 0; i < s.n; i++ {
		if !s.done[i] && i != s.cur {
			runnable[nr] = i
			nr++
		}
	}
	if nr == 0 {
		return -1
	}
	k := 0
	if s.pos < len(s.plan) {
		k = s.plan[s.pos]
		if k < 0 {
			k = -k
		}
		if !mustSwitch && s.gap < k/5 {
			s.gap++
			return -1
		}
		s.gap = 0
		s.pos++
	}
	to := k % 5
	if to == 0 {
		if mustSwitch {
			return runnable[0]
		}
		return -1
	}
	return runnable[(to-1)%nr]
}

// Yield is a scheduling point. kind/arg describe the seam event.
//
//go:norace
func (s *Sched) Yield(kind int, arg uint64) {
	if s == nil {
		return
	}
	s.note(kind, arg)
	if !s.active || s.hold > 0 || s.freeRun != 0 || s.foreign() {
		return
	}
	s.Yields++
	underLock := false
	if s.anyLocked() {
		if !s.ParkUnderLock {
			s.Skipped++
			return
		}
		underLock = true
	}
	to := s.pick(false)
	if to < 0 {
		return
	}
	if underLock {
		// the next task may need the lock this one holds: the monitor of Run
		// notices within milliseconds and falls back to free running
		s.risky = 1
		s.UnderLockSw++
	}
	from := s.cur
	s.Switches++
	s.SchedSig = (s.SchedSig ^ uint64(to+1) ^ uint64(s.Events)<<8) * 1099511628211
	s.cur = to
	s.batons[to].wake()
	s.batons[from].park()
	// (in free-running mode the monitor woke us; nothing more to do)
}

//go:norace
func (s *Sched) finish(id int) {
	s.note(evTaskEnd, 0)
	s.done[id] = true
	if s.freeRun != 0 {
		return
	}
	to := s.pick(true)
	if to < 0 {
		s.cur = -1
		return
	}
	s.cur = to
	s.batons[to].wake()
}

//go:norace
func (s *Sched) start(n int) {
	s.n = n
	s.active = n > 1
	s.cur = 0
	for i := 0; i < maxTasks; i++ {
		s.done[i] = i >= n
	}
}

//go:norace
func (s *Sched) stop() {
	s.active = false
	s.cur = -1
}

// HangInfo describes a run that did not finish.
type HangInfo struct {
	MutexBlocked bool   // some goroutine sits in sync.(*Mutex).Lock below an ice frame
	Dump         string // goroutine dump (trimmed)
}

// Run executes the task bodies under the schedule and returns nil when all
// finished. A non-nil result means the run hung; the goroutines are leaked and
// the process should not run further cases.
func (s *Sched) Run(bodies []func(task int), timeout time.Duration) *HangInfo {
	if len(bodies) > maxTasks {
		panic("too many tasks")
	}
	if len(bodies) == 0 {
		return nil
	}
	for i := range bodies {
		s.batons[i] = newBaton()
	}
	s.start(len(bodies))
	var wg sync.WaitGroup
	for i := range bodies {
		wg.Add(1)
		go func(id int) {
			defer wg.Done()
			s.setG(id)
			if id != 0 {
				s.batons[id].park()
			}
			bodies[id](id)
			s.finish(id)
		}(i)
	}
	doneCh := make(chan struct{})
	go func() { wg.Wait(); close(doneCh) }()
	// Monitor. The baton scheduler parks tasks at yield points; it refuses to do
	// so while a lock it can see (WatchMutexes) is held, but ice may hold a lock
	// it cannot see (a package-level lock, a lock in an object created later, a
	// channel used as a semaphore). Then the running task can block on a lock
	// whose holder the scheduler itself has parked - not a deadlock of ice. So
	// when no seam event has happened for a while and a goroutine is blocked
	// inside ice while tasks are parked, scheduling is abandoned for the rest of
	// this run: every parked task is released and all run freely. The oracles
	// compare with solo results and do not depend on the schedule. Only if the
	// run still does not finish is it a hang.
	tick := time.NewTicker(5 * time.Millisecond)
	defer tick.Stop()
	deadline := time.Now().Add(timeout)
	lastEv, quiet := -1, 0
	nextLook := 0
	extensions := 0
	for {
		select {
		case <-doneCh:
			s.stop()
			for i := range bodies {
				s.batons[i].close()
			}
			return nil
		case <-tick.C:
		}
		if ev := s.eventsRacy(); ev != lastEv {
			// progress: the bound is on time WITHOUT a seam event, so that a loaded
			// machine (or a slower but correct implementation) is never mistaken
			// for a hang; the shard's stall watchdog bounds the whole case
			lastEv, quiet = ev, 0
			deadline = time.Now().Add(timeout)
			nextLook = 0
		} else {
			quiet++
		}
		// look at the goroutines after 300 ms without a seam event (15 ms when a
		// task was parked under a lock), then at doubling intervals
		first := 60
		if s.riskyRacy() {
			first = 3
		}
		if nextLook == 0 {
			nextLook = first
		}
		if quiet >= nextLook && s.freeRun == 0 && len(bodies) > 1 {
			nextLook *= 2
			if parked := s.parkedTasks(); len(parked) > 0 && blockedInIce(allStacks()) {
				s.enterFreeRun(parked)
				quiet, nextLook = 0, 0
				deadline = time.Now().Add(timeout)
			}
		}
		if time.Now().After(deadline) {
			d := allStacks()
			if blockedInIce(d) {
				return &HangInfo{MutexBlocked: true, Dump: trimDump(d)}
			}
			if runningInIce(d) {
				// not blocked but busy inside ice without reaching a seam: give a
				// slow machine three more periods before calling it a loop that does
				// not terminate (a verdict as well: the call never returns)
				if extensions < 3 {
					extensions++
					deadline = time.Now().Add(timeout)
					continue
				}
				return &HangInfo{MutexBlocked: true, Dump: fmt.Sprintf("(no goroutine is blocked; one has been running inside ice for %v without reaching a seam or returning)\n", 4*timeout) + trimDump(d)}
			}
			return &HangInfo{MutexBlocked: false, Dump: trimDump(d)}
		}
	}
}

func allStacks() string {
	buf := make([]byte, 4<<20)
	return string(buf[:runtime.Stack(buf, true)])
}

//go:norace
func (s *Sched) riskyRacy() bool { return s.risky != 0 }

//go:norace
func (s *Sched) eventsRacy() int { return s.Events + s.ForeignEvents }

//go:norace
func (s *Sched) setG(id int) { s.gs[id] = getg() }

// parkedTasks: the tasks that are neither finished nor the baton holder. Only
// called by the monitor while the baton holder is blocked (nothing else
// touches the scheduler state then).
//
//go:norace
func (s *Sched) parkedTasks() []int {
	var out []int
	for i := 0; i < s.n; i++ {
		if !s.done[i] && i != s.cur {
			out = append(out, i)
		}
	}
	return out
}

//go:norace
func (s *Sched) enterFreeRun(parked []int) {
	s.freeRun = 1
	s.FreeRuns++
	for _, i := range parked {
		s.batons[i].wake()
	}
}

// blockedInIce: some goroutine is blocked on a lock, semaphore, condition or
// channel with an ice frame on its stack - and not merely parked by this
// scheduler at a yield point (which also sits below ice frames).
func blockedInIce(dump string) bool {
	for _, g := range strings.Split(dump, "\n\n") {
		head := g
		if i := strings.IndexByte(g, '\n'); i >= 0 {
			head = g[:i]
		}
		blocked := false
		for _, st := range []string{"[sync.Mutex.Lock", "[semacquire", "[sync.RWMutex", "[sync.Cond.Wait", "[sync.WaitGroup.Wait", "[chan receive", "[chan send", "[select"} {
			if strings.Contains(head, st) {
				blocked = true
			}
		}
		// a goroutine blocked on a lock, semaphore, condition or channel with an
		// ice frame on its stack: ice is waiting for something nobody will provide
		if strings.Contains(g, "icesim/sim.baton.park") || strings.Contains(g, "icesim/sim.(*Sched).Yield") {
			continue
		}
		if blocked && selfTestAnyBlocked && strings.Contains(g, "SelfTestSchedFallbacks") {
			return true
		}
		if blocked && strings.Contains(g, "github.com/blugelabs/ice/v2.") {
			return true
		}
	}
	return false
}

// runningInIce: some goroutine is running (or runnable) with an ice frame on its
// stack - used by the stall watchdog only, i.e. after minutes without progress.
func runningInIce(dump string) bool {
	for _, g := range strings.Split(dump, "\n\n") {
		head := g
		if i := strings.IndexByte(g, '\n'); i >= 0 {
			head = g[:i]
		}
		if (strings.Contains(head, "[running") || strings.Contains(head, "[runnable")) && strings.Contains(g, "github.com/blugelabs/ice/v2.") {
			return true
		}
	}
	return false
}

func trimDump(d string) string {
	if len(d) > 6000 {
		return d[:6000] + "\n...[trimmed]"
	}
	return d
}

// ---- mutex peeking ------------------------------------------------------------

// lockWord points at the state of one lock: the state word of a sync.Mutex
// (bit 0: locked) or, for a sync.RWMutex, the state word of its writer mutex
// plus its reader count (non-zero: readers inside or a writer pending).
type lockWord struct {
	state   *int32
	readers *int32
}

var (
	mutexType   = reflect.TypeOf(sync.Mutex{})
	rwMutexType = reflect.TypeOf(sync.RWMutex{})
)

// mutexWords returns the state of every sync.Mutex and sync.RWMutex reachable
// from the struct seg points to through struct fields and pointer fields (two
// pointer hops at most; maps, slices and interfaces are not followed).
func mutexWords(seg interface{}) []lockWord {
	v := reflect.ValueOf(seg)
	if v.Kind() != reflect.Ptr || v.IsNil() || v.Elem().Kind() != reflect.Struct {
		return nil
	}
	var out []lockWord
	seen := map[uintptr]bool{}
	collectLocks(v.Elem(), 2, seen, &out)
	return out
}

func collectLocks(e reflect.Value, hops int, seen map[uintptr]bool, out *[]lockWord) {
	if !e.CanAddr() {
		return
	}
	switch e.Type() {
	case mutexType:
		*out = append(*out, lockWord{state: (*int32)(unsafe.Pointer(e.UnsafeAddr()))})
		return
	case rwMutexType:
		wf, ok1 := rwMutexType.FieldByName("w")
		rf, ok2 := rwMutexType.FieldByName("readerCount")
		if !ok1 || !ok2 || wf.Type != mutexType || rf.Type.Size() != 4 {
			return
		}
		base := unsafe.Pointer(e.UnsafeAddr())
		*out = append(*out, lockWord{state: (*int32)(unsafe.Add(base, wf.Offset)), readers: (*int32)(unsafe.Add(base, rf.Offset))})
		return
	}
	if e.Kind() != reflect.Struct {
		return
	}
	for i := 0; i < e.NumField(); i++ {
		f := e.Field(i)
		switch f.Kind() {
		case reflect.Struct:
			collectLocks(f, hops, seen, out)
		case reflect.Ptr:
			if hops == 0 || f.IsNil() || f.Elem().Kind() != reflect.Struct {
				continue
			}
			// unexported pointer fields cannot be dereferenced through reflect's
			// safe API; rebuild the pointer from its address
			pp := *(*unsafe.Pointer)(unsafe.Pointer(f.UnsafeAddr()))
			if pp == nil || seen[uintptr(pp)] {
				continue
			}
			seen[uintptr(pp)] = true
			collectLocks(reflect.NewAt(f.Type().Elem(), pp).Elem(), hops-1, seen, out)
		}
	}
}

// SelfTestMutexPeek verifies that the state word peek sees Lock/Unlock of
// direct, nested and pointed-to mutexes and of read/write locks.
func SelfTestMutexPeek() error {
	type inner struct {
		x  int
		rw sync.RWMutex
	}
	type holder struct {
		a  int
		m  sync.Mutex
		in inner
		p  *inner
		q  *sync.Mutex
	}
	h := &holder{p: &inner{}, q: &sync.Mutex{}}
	w := mutexWords(h)
	if len(w) != 4 {
		return fmt.Errorf("lock peek: found %d locks, want 4", len(w))
	}
	s := &Sched{mutexes: w}
	steps := []struct {
		name         string
		lock, unlock func()
	}{
		{"Mutex", h.m.Lock, h.m.Unlock},
		{"nested RWMutex.Lock", h.in.rw.Lock, h.in.rw.Unlock},
		{"nested RWMutex.RLock", h.in.rw.RLock, h.in.rw.RUnlock},
		{"pointed-to RWMutex.Lock", h.p.rw.Lock, h.p.rw.Unlock},
		{"pointed-to RWMutex.RLock", h.p.rw.RLock, h.p.rw.RUnlock},
		{"*Mutex", h.q.Lock, h.q.Unlock},
	}
	for _, st := range steps {
		if s.anyLocked() {
			return fmt.Errorf("lock peek: %s: free lock reads held", st.name)
		}
		st.lock()
		if !s.anyLocked() {
			return fmt.Errorf("lock peek: %s: held lock reads free", st.name)
		}
		st.unlock()
		if s.anyLocked() {
			return fmt.Errorf("lock peek: %s: released lock reads held", st.name)
		}
	}
	return nil
}

// SelfTestSchedFallbacks exercises the two situations in which the scheduler
// steps back instead of misjudging: a lock it cannot see held across a yield
// point (free running), and seam events reached by goroutines that are not
// tasks.
func SelfTestSchedFallbacks() error {
	if runtime.GOARCH == "amd64" {
		g0 := getg()
		ch := make(chan uintptr)
		go func() { ch <- getg() }()
		if g1 := <-ch; g0 == 0 || g1 == 0 || g0 == g1 || g0 != getg() {
			return fmt.Errorf("goroutine identity: %x %x %x", g0, g1, getg())
		}
	}
	// (1) hidden lock held across a yield point; the plan switches at the first yield
	var hidden sync.Mutex
	s := NewSched([]int{1, 1, 1, 1})
	var order []int
	var omu sync.Mutex
	body := func(id int) {
		hidden.Lock()
		s.Yield(evRead, 1)
		hidden.Unlock()
		omu.Lock()
		order = append(order, id)
		omu.Unlock()
		s.Yield(evRead, 2)
	}
	// blockedInIce looks for ice frames; emulate one by running the bodies below a
	// function of that package path is not possible here, so accept any blocked
	// goroutine for the self-test
	selfTestAnyBlocked = true
	h := s.Run([]func(int){body, body}, 10*time.Second)
	selfTestAnyBlocked = false
	if h != nil {
		return fmt.Errorf("free-run fallback: run hung\n%s", h.Dump)
	}
	if s.FreeRuns != 1 || len(order) != 2 {
		return fmt.Errorf("free-run fallback: FreeRuns=%d order=%v", s.FreeRuns, order)
	}
	// (2) a foreign goroutine reaching yield points while its task waits for it
	s = NewSched([]int{1, 1, 1, 1, 1, 1})
	var sums [3]int
	body2 := func(id int) {
		var wg sync.WaitGroup
		for k := 0; k < 2; k++ {
			wg.Add(1)
			go func() {
				defer wg.Done()
				for i := 0; i < 50; i++ {
					s.Yield(evRead, uint64(i))
				}
			}()
		}
		wg.Wait()
		s.Yield(evRead, 99)
		sums[id] = id + 1
		s.Yield(evRead, 100)
	}
	if h := s.Run([]func(int){body2, body2, body2}, 10*time.Second); h != nil {
		return fmt.Errorf("foreign goroutines: run hung\n%s", h.Dump)
	}
	sum := sums[0] + sums[1] + sums[2]
	if sum != 6 || s.ForeignEvents == 0 || s.ForeignEvents > 300 || s.Switches == 0 { // (the foreign counter is deliberately unsynchronised)
		return fmt.Errorf("foreign goroutines: sum=%d foreign=%d switches=%d", sum, s.ForeignEvents, s.Switches)
	}
	return nil
}

var selfTestAnyBlocked bool
