package sim

import (
	"bytes"
	"errors"
	"fmt"

	"github.com/RoaringBitmap/roaring"
	segment "github.com/blugelabs/bluge_segment_api"
	"pgregory.net/rapid"

	"icesim/model"
)

// Scenario "persist-fault" (C12, fault enumeration). One case = one persist
// or merge workload. The fault-free run yields the reference bytes B (length
// L) and the sequence of seam events (writes and, for file-backed inputs,
// storage reads). Then:
//   - for EVERY k in [0,L): the writer accepts exactly k bytes and fails from
//     then on => WriteTo must return a non-nil error;
//   - for a sample of k: the writer fails once => error, or nil with the
//     received bytes equal to B;
//   - (merges) for EVERY seam event e, plus "before the call" and "after the
//     last event": the close channel is closed at e => segment.ErrClosed, or
//     nil with received bytes == B; never anything else.

type PFaultCase struct {
	Merge *MergeDef `json:"merge,omitempty"` // nil: persist a world segment
	Mode  uint32    `json:"mode,omitempty"`
	Seg   int       `json:"seg,omitempty"`
}

func init() {
	register(&Scenario{
		Name: "persist-fault",
		Rule: "one case = one workload (a Segment.WriteTo of a built/mem/file view, or a merge through the public API with a chosen buffer size or through the unbuffered hook) whose complete fault space is enumerated: every byte offset for a failing writer, a sample of fail-once offsets, and for merges every cancellation point (each write, each input storage read, before, after); non-trivial = L >= 100 bytes; distinct = distinct case JSON",
		Gen:  genPFaultCase,
		Run:  runPFaultCase,
	})
}

func genPFaultCase(t *rapid.T, prop string) *Case {
	o := WorldOpts{MinBuilds: 1, MaxBuilds: 3, MaxMerges: 1, BigPct: 0, MaxTinyDocs: 5, MoreDV: true}
	if rapid.IntRange(0, 2).Draw(t, "swarm-few") == 0 {
		o.FewFields = true
	}
	wd := GenWorld(t, o)
	pc := &PFaultCase{Seg: rapid.IntRange(0, 5).Draw(t, "seg")}
	if rapid.IntRange(0, 3).Draw(t, "ismerge") != 0 {
		pc.Merge = genMergeDef(t, len(wd.Segs))
		pc.Mode = rapid.SampledFrom(chunkModes).Draw(t, "mode")
	}
	return &Case{World: wd, PFault: pc}
}

type pfOutcome struct {
	err    error
	pi     *PanicInfo
	buf    []byte
	ret    int64
	events int
	writes int
}

func runPFaultCase(c *Case, env *Env) *Result {
	res := &Result{}
	sched := NewSched(nil)
	defer res.absorb(sched)
	w, fail := BuildWorldFor(env.Prop, c.World, sched)
	if fail != nil {
		res.Fail = fail
		return res
	}
	res.Shape = worldShape(w)
	pc := c.PFault

	var inputs []*WSeg
	var segs []segment.Segment
	var drops []*roaring.Bitmap
	var target *WSeg
	desc := ""
	if pc.Merge != nil {
		inputs = w.ResolveInputs(len(w.Segs), pc.Merge)
		for k, in := range inputs {
			var d *Drop
			if k < len(pc.Merge.Drops) {
				d = &pc.Merge.Drops[k]
			}
			bm, _ := MakeDrops(d, len(in.Docs))
			drops = append(drops, bm)
			segs = append(segs, in.Seg)
		}
		if pc.Merge.Public {
			desc = fmt.Sprintf("Merger.WriteTo of %d inputs, buffer size %d", len(inputs), pc.Merge.Buf)
			res.probe("merge-public-buffered")
		} else {
			desc = fmt.Sprintf("merge (unbuffered hook, chunk mode %d) of %d inputs", pc.Mode, len(inputs))
			res.probe("merge-unbuffered")
		}
	} else {
		target = w.Segs[pc.Seg%len(w.Segs)]
		desc = fmt.Sprintf("Segment.WriteTo of seg %d (%s view, %d docs)", target.Idx, target.Def.Store, len(target.Docs))
		res.probe("persist-" + target.Def.Store)
	}

	// one execution of the workload with a writer fault and/or a cancellation point
	exec := func(wf *WriteFault, cancelAt int) *pfOutcome {
		out := &pfOutcome{}
		wr := NewSimWriter(sched)
		wr.Fault = wf
		var closeCh chan struct{}
		closed := false
		event := 0
		tick := func() {
			if cancelAt >= 0 && event == cancelAt && !closed {
				close(closeCh)
				closed = true
				sched.note(evCancel, uint64(event))
			}
			event++
		}
		if pc.Merge != nil {
			closeCh = make(chan struct{})
			if cancelAt == -2 { // before the call
				close(closeCh)
				closed = true
			}
			wr.OnWrite = func(int, int) { tick() }
			for _, in := range inputs {
				if in.RA != nil {
					in.RA.OnRead = func(int) { tick() }
				}
			}
			_, out.ret, out.pi, out.err = RunMerge(pc.Merge, pc.Mode, segs, drops, wr, closeCh)
			for _, in := range inputs {
				if in.RA != nil {
					in.RA.OnRead = nil
				}
			}
		} else {
			wr.OnWrite = func(int, int) { event++ }
			out.pi = Guard(func() { out.ret, out.err = target.Seg.WriteTo(wr, nil) })
		}
		out.buf = wr.Buf
		out.events = event
		out.writes = wr.Calls
		res.SubRuns++
		res.Events += event
		return out
	}

	free := exec(nil, -1)
	if free.pi != nil || free.err != nil {
		prop := "C02"
		if pc.Merge == nil {
			prop = "C04"
		}
		res.Fail = apiFail(prop, "world", desc+" (fault-free)", free.pi, free.err)
		return res
	}
	B := free.buf
	L := len(B)
	if free.ret != int64(L) {
		res.Fail = mismatch("C11", "footer", "byte-count", fmt.Sprintf("%s: returned %d, writer received %d bytes", desc, free.ret, L))
		return res
	}
	// the fault-free output must be a correct file (so that "equals B" below means "complete and correct")
	if pc.Merge != nil {
		loaded, _, _, pi, err := LoadView(B, StoreMem, sched)
		if pi != nil || err != nil {
			res.Fail = apiFail("C04", "world", "Load(fault-free merge output)", pi, err)
			return res
		}
		var docs []model.SDoc
		var lists [][]string
		for k, in := range inputs {
			_, dropped := MakeDrops(dropOf(pc.Merge, k), len(in.Docs))
			for j := range in.Docs {
				if !dropped[j] {
					docs = append(docs, in.Docs[j])
				}
			}
			lists = append(lists, in.Fields)
		}
		exp := model.Expect(docs, model.UnionFields(lists...), model.Merged, w.DV)
		got, f := Observe("C02", loaded, ObsOpts{SkipStats: true})
		if f != nil {
			res.Fail = f
			return res
		}
		if d := model.Diff(got, exp, "stats", "counts"); d != "" {
			res.Fail = mismatch("C02", "model", sectionOf(d), "fault-free merge output: "+d)
			return res
		}
	} else if !bytes.Equal(B, target.Bytes) {
		res.Fail = mismatch("C11", "footer", "re-persist-bytes", fmt.Sprintf("%s: bytes differ from the segment's original image at offset %d", desc, firstDiff(B, target.Bytes)))
		return res
	}
	res.NonTrivial = L >= 100
	res.probeN("bytes-enumerated", L)
	res.probeN("write-calls-fault-free", free.writes)

	// ---- failing writer at every byte offset ----
	for k := 0; k < L; k++ {
		o := exec(&WriteFault{After: k}, -1)
		res.fault("writer-fails-persistently", 1, 1)
		if o.pi != nil {
			res.Fail = &Fail{Prop: "C12", Oracle: "persist-fault", Kind: "panic", Site: o.pi.Site, Detail: fmt.Sprintf("%s: writer failing after %d of %d bytes: panic: %s", desc, k, L, o.pi.Msg)}
			return res
		}
		if o.err == nil {
			res.Fail = &Fail{Prop: "C12", Oracle: "persist-fault", Kind: "silent-success", Site: writerSite(pc), Detail: fmt.Sprintf("%s: the writer accepted only %d of %d bytes and failed from then on, yet WriteTo returned n=%d, err=nil", desc, k, L, o.ret)}
			return res
		}
	}
	// ---- writer failing once (sampled offsets) ----
	step := L/16 + 1
	for k := 0; k < L; k += step {
		o := exec(&WriteFault{After: k, Once: true}, -1)
		res.fault("writer-fails-once", 1, 1)
		if o.pi != nil {
			res.Fail = &Fail{Prop: "C12", Oracle: "persist-fault", Kind: "panic", Site: o.pi.Site, Detail: fmt.Sprintf("%s: writer failing once at byte %d of %d: panic: %s", desc, k, L, o.pi.Msg)}
			return res
		}
		if o.err == nil && !bytes.Equal(o.buf, B) {
			res.Fail = &Fail{Prop: "C12", Oracle: "persist-fault", Kind: "silent-success", Site: writerSite(pc), Detail: fmt.Sprintf("%s: one write failed at byte %d of %d, WriteTo returned nil, but the %d bytes received differ from the complete file (first difference at %d)", desc, k, L, len(o.buf), firstDiff(o.buf, B))}
			return res
		}
	}
	// ---- cancellation at every seam event ----
	if pc.Merge != nil {
		points := []int{-2}
		for e := 0; e <= free.events; e++ { // e == events: never reached = "after the last event"
			points = append(points, e)
		}
		for _, e := range points {
			o := exec(nil, e)
			fired := 1
			if e >= o.events && e != -2 {
				fired = 0
			}
			res.fault("close-channel", 1, fired)
			when := fmt.Sprintf("at seam event %d of %d", e, free.events)
			if e == -2 {
				when = "before the call"
			}
			if o.pi != nil {
				res.Fail = &Fail{Prop: "C12", Oracle: "persist-fault", Kind: "panic", Site: o.pi.Site, Detail: fmt.Sprintf("%s: close channel closed %s: panic: %s", desc, when, o.pi.Msg)}
				return res
			}
			switch {
			case o.err == nil:
				if !bytes.Equal(o.buf, B) {
					res.Fail = &Fail{Prop: "C12", Oracle: "persist-fault", Kind: "silent-success", Site: "cancel", Detail: fmt.Sprintf("%s: close channel closed %s: WriteTo returned nil but the %d bytes written differ from the complete %d-byte file (first difference at %d)", desc, when, len(o.buf), L, firstDiff(o.buf, B))}
					return res
				}
				res.probe("cancel-too-late-complete-file")
			case errors.Is(o.err, segment.ErrClosed):
				res.probe("cancel-reported-ErrClosed")
			default:
				res.Fail = &Fail{Prop: "C12", Oracle: "persist-fault", Kind: "error", Site: "cancel", Detail: fmt.Sprintf("%s: close channel closed %s: WriteTo returned %v, which is neither ErrClosed nor success", desc, when, o.err)}
				return res
			}
		}
	}
	return res
}

func dropOf(md *MergeDef, k int) *Drop {
	if k < len(md.Drops) {
		return &md.Drops[k]
	}
	return nil
}

func writerSite(pc *PFaultCase) string {
	switch {
	case pc.Merge == nil:
		return "Segment.WriteTo"
	case pc.Merge.Public:
		return "Merger.WriteTo"
	}
	return "merge-unbuffered"
}
