package sim

import (
	"bytes"
	"errors"
	"fmt"
	ice "github.com/blugelabs/ice/v2"

	"github.com/RoaringBitmap/roaring"
	segment "github.com/blugelabs/bluge_segment_api"
	"pgregory.net/rapid"

	"icesim/model"
)

// Scenario "persist-fault" (C12, fault enumeration). One case = one persist
// or merge workload. The fault-free run yields the reference bytes B (length
// L) and the sequence of seam events (writes and, for file-backed inputs,
// storage reads). Then:
//   - for EVERY k in [0,L): the writer accepts exactly k bytes and fails from
//     then on => WriteTo must return a non-nil error;
//   - for a sample of k: the writer fails once => error, or nil with the
//     received bytes equal to B;
//   - (merges) for EVERY seam event e, plus "before the call" and "after the
//     last event": the close channel is closed at e => segment.ErrClosed, or
//     nil with received bytes == B; never anything else.

type PFaultCase struct {
	Merge *MergeDef `json:"merge,omitempty"` // nil: persist a world segment
	Mode  uint32    `json:"mode,omitempty"`
	Seg   int       `json:"seg,omitempty"`
	// Prefill: the destination already holds this many bytes when WriteTo is
	// called (a caller's header, a file opened for appending); what WriteTo adds
	// behind them is the file
	Prefill int `json:"prefill,omitempty"`
}

func init() {
	register(&Scenario{
		Name: "persist-fault",
		Rule: "one case = one workload (a Segment.WriteTo of a built/mem/file view, or a merge through the public API with a chosen buffer size or through the unbuffered hook) whose complete fault space is enumerated: every byte offset for a failing writer, a sample of fail-once offsets, and for merges every cancellation point (each write, each input storage read, before, after); non-trivial = L >= 100 bytes; distinct = distinct case JSON",
		Gen:  genPFaultCase,
		Run:  runPFaultCase,
	})
}

func genPFaultCase(t *rapid.T, prop string) *Case {
	o := WorldOpts{NoExtremes: true, MinBuilds: 1, MaxBuilds: 3, MaxMerges: 1, BigPct: 0, MaxTinyDocs: 5, MoreDV: true}
	if rapid.IntRange(0, 2).Draw(t, "swarm-few") == 0 {
		o.FewFields = true
	}
	wd := GenWorld(t, o)
	if rapid.IntRange(0, 3).Draw(t, "striplast") == 0 {
		// the first build keeps the (sorted) last field only as a stored field:
		// later inputs have terms where earlier ones have an empty dictionary
		last := ""
		for _, it := range wd.Segs[0].Batch {
			if it.Doc != nil {
				for _, f := range it.Doc.Fields {
					if f.Name > last {
						last = f.Name
					}
				}
			}
		}
		for _, it := range wd.Segs[0].Batch {
			if it.Doc != nil {
				for j := range it.Doc.Fields {
					if it.Doc.Fields[j].Name == last {
						it.Doc.Fields[j].Terms = nil
						it.Doc.Fields[j].Store = true
					}
				}
			}
		}
	}
	pc := &PFaultCase{Seg: rapid.IntRange(0, 5).Draw(t, "seg")}
	if rapid.IntRange(0, 3).Draw(t, "prefill") == 0 {
		pc.Prefill = rapid.SampledFrom([]int{1, 64, 4096}).Draw(t, "prefill-bytes")
	}
	if rapid.IntRange(0, 3).Draw(t, "ismerge") != 0 {
		pc.Merge = genMergeDef(t, len(wd.Segs))
		pc.Mode = rapid.SampledFrom(chunkModes).Draw(t, "mode")
	}
	return &Case{World: wd, PFault: pc}
}

type pfOutcome struct {
	dropsChanged string
	err          error
	pi           *PanicInfo
	buf          []byte
	ret          int64
	events       int
	writes       int
	// retry: the same Merger object asked to write again, to a healthy writer and
	// without cancellation, after its first WriteTo failed
	retried  bool
	retryErr error
	retryPi  *PanicInfo
	retryBuf []byte
	retryRet int64
}

func runPFaultCase(c *Case, env *Env) *Result {
	res := &Result{}
	sched := NewSched(nil)
	defer res.absorb(sched)
	w, fail := BuildWorldFor(env.Prop, c.World, sched)
	if fail != nil {
		res.Fail = fail
		return res
	}
	res.Shape = worldShape(w)
	pc := c.PFault

	var inputs []*WSeg
	var segs []segment.Segment
	var drops []*roaring.Bitmap
	var target *WSeg
	desc := ""
	if pc.Merge != nil {
		inputs = w.ResolveInputs(len(w.Segs), pc.Merge)
		for k, in := range inputs {
			var d *Drop
			if k < len(pc.Merge.Drops) {
				d = &pc.Merge.Drops[k]
			}
			bm, _ := MakeDrops(d, len(in.Docs))
			drops = append(drops, bm)
			segs = append(segs, in.Seg)
		}
		if pc.Merge.Public {
			desc = fmt.Sprintf("Merger.WriteTo of %d inputs, buffer size %d", len(inputs), pc.Merge.Buf)
			res.probe("merge-public-buffered")
		} else {
			desc = fmt.Sprintf("merge (unbuffered hook, chunk mode %d) of %d inputs", pc.Mode, len(inputs))
			res.probe("merge-unbuffered")
		}
	} else {
		target = w.Segs[pc.Seg%len(w.Segs)]
		desc = fmt.Sprintf("Segment.WriteTo of seg %d (%s view, %d docs)", target.Idx, target.Def.Store, len(target.Docs))
		res.probe("persist-" + target.Def.Store)
	}

	var dropsRef []*roaring.Bitmap
	for _, d := range drops {
		if d == nil {
			dropsRef = append(dropsRef, nil)
		} else {
			dropsRef = append(dropsRef, d.Clone())
		}
	}
	segsRef := append([]segment.Segment(nil), segs...)
	// retrySame: the next execution of a public merge asks the SAME Merger to
	// write again after a failure (a caller that retries into a truncated file)
	retrySame := false
	// one execution of the workload with a writer fault and/or a cancellation point
	exec := func(wf *WriteFault, cancelAt int) *pfOutcome {
		Heartbeat()
		out := &pfOutcome{}
		var firstBuf []byte
		firstWrites := 0
		wr := NewSimWriter(sched)
		prefill := func() {
			for i := 0; i < pc.Prefill; i++ {
				wr.Buf = append(wr.Buf, byte(0xA0+i%7))
			}
		}
		prefill()
		if wf != nil && pc.Prefill > 0 {
			shifted := *wf
			shifted.After += pc.Prefill
			wf = &shifted
		}
		wr.Fault = wf
		var closeCh chan struct{}
		tk := NewTicker(-1, nil, sched)
		if pc.Merge != nil {
			closeCh = make(chan struct{})
			tk = NewTicker(cancelAt, closeCh, sched)
			if cancelAt == -2 { // before the call
				close(closeCh)
				tk.Closed = true
			}
			wr.OnWrite = tk.OnWrite
			// file-backed inputs are loaded afresh for every execution: their
			// dictionaries are cold, so the merge's reads of them are seam events
			// (and cancellation points) in every run, not only in the first
			runSegs := append([]segment.Segment(nil), segs...)
			for k, in := range inputs {
				if in.RA != nil {
					sched.Hold()
					fresh, _, ra, pi, err := LoadView(in.Bytes, StoreFile, sched)
					sched.Release()
					if pi != nil || err != nil {
						out.pi, out.err = pi, err
						return out
					}
					ra.OnRead = tk.OnRead
					runSegs[k] = fresh
				}
			}
			if pc.Merge.Public && retrySame {
				m := ice.Merge(runSegs, drops, pc.Merge.Buf)
				out.pi = Guard(func() { out.ret, out.err = m.WriteTo(wr, closeCh) })
				if out.pi == nil && out.err != nil {
					// what the first attempt wrote is part of the outcome; then the caller
					// truncates the SAME destination and asks the same Merger again
					firstBuf, firstWrites = append([]byte{}, stripPrefill(wr.Buf, pc.Prefill)...), wr.Calls
					wr.Rewind()
					prefill()
					out.retried = true
					out.retryPi = Guard(func() { out.retryRet, out.retryErr = m.WriteTo(wr, nil) })
					out.retryBuf = stripPrefill(wr.Buf, pc.Prefill)
				}
			} else {
				_, out.ret, out.pi, out.err = RunMerge(pc.Merge, pc.Mode, runSegs, drops, wr, closeCh)
			}
		} else {
			wr.OnWrite = tk.OnWrite
			out.pi = Guard(func() { out.ret, out.err = target.Seg.WriteTo(wr, nil) })
		}
		out.buf = stripPrefill(wr.Buf, pc.Prefill)
		out.events = tk.Count()
		out.writes = wr.Calls
		if out.retried {
			out.buf, out.writes = firstBuf, firstWrites
		}
		// whatever happened: the caller's slices and bitmaps are the caller's
		for k := range dropsRef {
			if (drops[k] == nil) != (dropsRef[k] == nil) || (drops[k] != nil && !drops[k].Equals(dropsRef[k])) {
				out.dropsChanged = fmt.Sprintf("drops[%d] handed to Merge was changed by the call (now %v)", k, drops[k])
			}
		}
		if len(segsRef) == len(segs) {
			for k := range segsRef {
				if segs[k] != segsRef[k] {
					out.dropsChanged = fmt.Sprintf("segments[%d] handed to Merge was replaced by the call", k)
				}
			}
		}
		res.SubRuns++
		res.Events += tk.Count()
		return out
	}

	rawExec := exec
	var changed string
	exec = func(wf *WriteFault, cancelAt int) *pfOutcome {
		o := rawExec(wf, cancelAt)
		if o.dropsChanged != "" && changed == "" {
			changed = fmt.Sprintf("%s (writer fault %+v, cancel at %d): %s", desc, wf, cancelAt, o.dropsChanged)
		}
		return o
	}
	defer func() {
		if changed != "" && res.Fail == nil {
			res.Fail = mismatch("C15", "immutability", "merge-arguments", changed)
		}
	}()
	checkRetry := func(o *pfOutcome, what string, B []byte) *Fail {
		if !o.retried {
			return nil
		}
		res.probe("same-merger-asked-again-after-a-failure")
		if o.retryPi != nil {
			return &Fail{Prop: "C12", Oracle: "persist-fault", Kind: "panic", Site: o.retryPi.Site, Detail: fmt.Sprintf("%s: %s; the same Merger asked to write again to a healthy writer panicked: %s", desc, what, o.retryPi.Msg)}
		}
		if o.retryErr == nil && (!bytes.Equal(o.retryBuf, B) || o.retryRet != int64(len(B))) {
			return &Fail{Prop: "C12", Oracle: "persist-fault", Kind: "silent-success", Site: "Merger.WriteTo(retry)", Detail: fmt.Sprintf("%s: %s; the same Merger asked to write again to a healthy writer returned n=%d, err=nil, but the %d bytes it wrote are not the complete %d-byte file (first difference at %d)", desc, what, o.retryRet, len(o.retryBuf), len(B), firstDiff(o.retryBuf, B))}
		}
		return nil
	}
	free := exec(nil, -1)
	if free.pi != nil || free.err != nil {
		prop := "C02"
		if pc.Merge == nil {
			prop = "C04"
		}
		res.Fail = apiFail(prop, "world", desc+" (fault-free)", free.pi, free.err)
		return res
	}
	B := free.buf
	L := len(B)
	if free.ret != int64(L) {
		res.Fail = mismatch("C11", "footer", "byte-count", fmt.Sprintf("%s: returned %d, writer received %d bytes", desc, free.ret, L))
		return res
	}
	// the fault-free output must be a correct file (so that "equals B" below means "complete and correct")
	if pc.Merge != nil {
		loaded, _, _, pi, err := LoadView(B, StoreMem, sched)
		if pi != nil || err != nil {
			res.Fail = apiFail("C04", "world", "Load(fault-free merge output)", pi, err)
			return res
		}
		var docs []model.SDoc
		var lists [][]string
		for k, in := range inputs {
			_, dropped := MakeDrops(dropOf(pc.Merge, k), len(in.Docs))
			for j := range in.Docs {
				if !dropped[j] {
					docs = append(docs, in.Docs[j])
				}
			}
			lists = append(lists, in.Fields)
		}
		exp := model.Expect(docs, model.UnionFields(lists...), model.Merged, w.DV)
		got, f := Observe("C02", loaded, ObsOpts{SkipStats: true})
		if f != nil {
			res.Fail = f
			return res
		}
		if d := model.Diff(got, exp, "stats", "counts"); d != "" {
			res.Fail = mismatch("C02", "model", sectionOf(d), "fault-free merge output: "+d)
			return res
		}
	} else if !bytes.Equal(B, target.Bytes) {
		res.Fail = mismatch("C11", "footer", "re-persist-bytes", fmt.Sprintf("%s: bytes differ from the segment's original image at offset %d", desc, firstDiff(B, target.Bytes)))
		return res
	}
	res.NonTrivial = L >= 100
	res.probeN("bytes-enumerated", L)
	res.probeN("write-calls-fault-free", free.writes)

	// ---- failing writer at every byte offset ----
	for k := 0; k < L; k++ {
		// every third offset fails with an error that calls itself temporary
		retrySame = k%(L/24+1) == 0 || k >= L-3
		o := exec(&WriteFault{After: k, Temp: k%3 == 1}, -1)
		retrySame = false
		if k%3 == 1 {
			res.fault("writer-fails-persistently-with-temporary-error", 1, 1)
		} else {
			res.fault("writer-fails-persistently", 1, 1)
		}
		if o.pi != nil {
			res.Fail = &Fail{Prop: "C12", Oracle: "persist-fault", Kind: "panic", Site: o.pi.Site, Detail: fmt.Sprintf("%s: writer failing after %d of %d bytes: panic: %s", desc, k, L, o.pi.Msg)}
			return res
		}
		if o.err == nil {
			res.Fail = &Fail{Prop: "C12", Oracle: "persist-fault", Kind: "silent-success", Site: writerSite(pc), Detail: fmt.Sprintf("%s: the writer accepted only %d of %d bytes and failed from then on, yet WriteTo returned n=%d, err=nil", desc, k, L, o.ret)}
			return res
		}
		if f := checkRetry(o, fmt.Sprintf("the first WriteTo failed (writer failing after %d of %d bytes)", k, L), B); f != nil {
			res.Fail = f
			return res
		}
		// a failed persist must leave the segment as it was: persisting it
		// again to a healthy writer reproduces the file (sampled offsets)
		if k%(L/12+1) == 0 || k == L-1 {
			if pc.Merge == nil {
				// the same on a fresh object whose very first WriteTo is the failing one
				if f := freshFailThenRewrite(w, target, k, B, desc, sched, res); f != nil {
					res.Fail = f
					return res
				}
			}
			again := exec(nil, -1)
			if again.pi != nil || again.err != nil {
				res.Fail = apiFail("C15", "immutability", desc+" (healthy writer, after a failed attempt)", again.pi, again.err)
				return res
			}
			if !bytes.Equal(again.buf, B) {
				prop, oracle, site := "C15", "immutability", "persisted-bytes-after-failed-persist"
				if pc.Merge == nil {
					prop, oracle, site = "C11", "footer", "re-persist-after-failed-persist"
				}
				res.Fail = mismatch(prop, oracle, site, fmt.Sprintf("%s: after an attempt that failed at byte %d, writing again to a healthy writer produced %d bytes differing from the original file at offset %d of %d", desc, k, len(again.buf), firstDiff(again.buf, B), L))
				return res
			}
			res.probe("healthy-rewrite-after-failed-write")
		}
	}
	// ---- writer failing once (sampled offsets) ----
	step := L/16 + 1
	for k := 0; k < L; k += step {
		// alternately an "interrupted" error and io.ErrShortWrite (what a size-limited
		// writer reports; code that "tolerates" it must still write the right file)
		variant := (k / step) % 3
		o := exec(&WriteFault{After: k, Once: true, Short: variant == 1, Full: variant == 2}, -1)
		if variant == 2 && o.pi == nil && o.err == nil {
			// the destination reported an error (together with a full count): it failed
			res.Fail = &Fail{Prop: "C12", Oracle: "persist-fault", Kind: "silent-success", Site: writerSite(pc), Detail: fmt.Sprintf("%s: the write reaching byte %d of %d returned an error together with its full byte count, yet WriteTo returned nil", desc, k, L)}
			return res
		}
		res.fault("writer-fails-once", 1, 1)
		if o.pi != nil {
			res.Fail = &Fail{Prop: "C12", Oracle: "persist-fault", Kind: "panic", Site: o.pi.Site, Detail: fmt.Sprintf("%s: writer failing once at byte %d of %d: panic: %s", desc, k, L, o.pi.Msg)}
			return res
		}
		if o.err == nil && !bytes.Equal(o.buf, B) {
			res.Fail = &Fail{Prop: "C12", Oracle: "persist-fault", Kind: "silent-success", Site: writerSite(pc), Detail: fmt.Sprintf("%s: one write failed at byte %d of %d, WriteTo returned nil, but the %d bytes received differ from the complete file (first difference at %d)", desc, k, L, len(o.buf), firstDiff(o.buf, B))}
			return res
		}
	}
	// ---- cancellation at every seam event ----
	if pc.Merge != nil {
		points := []int{-2}
		for e := 0; e <= free.events; e++ { // e == events: never reached = "after the last event"
			points = append(points, e)
		}
		for pi, e := range points {
			retrySame = pi%3 == 0
			o := exec(nil, e)
			retrySame = false
			fired := 1
			if e >= o.events && e != -2 {
				fired = 0
			}
			res.fault("close-channel", 1, fired)
			when := fmt.Sprintf("at seam event %d of %d", e, free.events)
			if e == -2 {
				when = "before the call"
			}
			if o.pi != nil {
				res.Fail = &Fail{Prop: "C12", Oracle: "persist-fault", Kind: "panic", Site: o.pi.Site, Detail: fmt.Sprintf("%s: close channel closed %s: panic: %s", desc, when, o.pi.Msg)}
				return res
			}
			switch {
			case o.err == nil:
				if !bytes.Equal(o.buf, B) {
					res.Fail = &Fail{Prop: "C12", Oracle: "persist-fault", Kind: "silent-success", Site: "cancel", Detail: fmt.Sprintf("%s: close channel closed %s: WriteTo returned nil but the %d bytes written differ from the complete %d-byte file (first difference at %d)", desc, when, len(o.buf), L, firstDiff(o.buf, B))}
					return res
				}
				res.probe("cancel-too-late-complete-file")
			case errors.Is(o.err, segment.ErrClosed):
				res.probe("cancel-reported-ErrClosed")
				if f := checkRetry(o, "the first WriteTo was cancelled "+when, B); f != nil {
					res.Fail = f
					return res
				}
			default:
				res.Fail = &Fail{Prop: "C12", Oracle: "persist-fault", Kind: "error", Site: "cancel", Detail: fmt.Sprintf("%s: close channel closed %s: WriteTo returned %v, which is neither ErrClosed nor success", desc, when, o.err)}
				return res
			}
		}
	}
	return res
}

func dropOf(md *MergeDef, k int) *Drop {
	if k < len(md.Drops) {
		return &md.Drops[k]
	}
	return nil
}

func writerSite(pc *PFaultCase) string {
	switch {
	case pc.Merge == nil:
		return "Segment.WriteTo"
	case pc.Merge.Public:
		return "Merger.WriteTo"
	}
	return "merge-unbuffered"
}

// freshFailThenRewrite: a fresh object of the target segment (rebuilt or
// reloaded) whose FIRST WriteTo fails after k bytes must still persist the
// complete, identical file afterwards.
func freshFailThenRewrite(w *World, target *WSeg, k int, B []byte, desc string, sched *Sched, res *Result) *Fail {
	var seg segment.Segment
	var pi *PanicInfo
	var err error
	if target.Kind == model.Built && target.Def.Store == StoreBuilt {
		docs := ExpandBatch(target.Def, target.Idx)
		PreBuild(w.Impl, len(docs))
		pi = Guard(func() {
			seg, _, err = w.Impl.New(ToSegmentDocs(docs, w.DV, sched), model.NormFn(target.Def.Norm), target.Def.Mode)
		})
	} else {
		store := target.Def.Store
		if store != StoreFile {
			store = StoreMem
		}
		seg, _, _, pi, err = LoadViewWith(w.Impl, target.Bytes, store, sched)
	}
	if pi != nil || err != nil {
		return apiFail("C04", "world", "fresh object of the target segment", pi, err)
	}
	bad := NewSimWriter(sched)
	bad.Fault = &WriteFault{After: k}
	var werr error
	if pi := Guard(func() { _, werr = seg.WriteTo(bad, nil) }); pi != nil {
		return &Fail{Prop: "C12", Oracle: "persist-fault", Kind: "panic", Site: pi.Site, Detail: fmt.Sprintf("%s (fresh object): writer failing after %d bytes: panic: %s", desc, k, pi.Msg)}
	}
	if werr == nil {
		return &Fail{Prop: "C12", Oracle: "persist-fault", Kind: "silent-success", Site: "Segment.WriteTo", Detail: fmt.Sprintf("%s (fresh object): the writer accepted only %d bytes, yet WriteTo returned nil", desc, k)}
	}
	good := NewSimWriter(sched)
	var ret int64
	if pi := Guard(func() { ret, werr = seg.WriteTo(good, nil) }); pi != nil || werr != nil {
		return apiFail("C11", "footer", desc+" (healthy writer after a failed first WriteTo)", pi, werr)
	}
	res.SubRuns += 2
	res.probe("first-write-fails-then-healthy-rewrite")
	if f := checkFooter(good.Buf, ret, desc+" re-persist after a failed first WriteTo", len(target.Docs), MergeModeOrBuild(target)); f != nil {
		return f
	}
	if !bytes.Equal(good.Buf, B) {
		return mismatch("C11", "footer", "re-persist-after-failed-persist", fmt.Sprintf("%s: the first WriteTo of a fresh object failed at byte %d; the next WriteTo to a healthy writer produced %d bytes differing from the original file at offset %d of %d", desc, k, len(good.Buf), firstDiff(good.Buf, B), len(B)))
	}
	return nil
}

// stripPrefill returns what was written behind the n bytes the destination
// held before the call. If the destination is now shorter than that, or those
// bytes were changed, the result is nil plus a marker byte (never equal to a
// segment file).
func stripPrefill(buf []byte, n int) []byte {
	if n == 0 {
		return buf
	}
	if len(buf) < n {
		return []byte{0xFF}
	}
	for i := 0; i < n; i++ {
		if buf[i] != byte(0xA0+i%7) {
			return []byte{0xFE}
		}
	}
	return buf[n:]
}
