// Package model is the executable reference model for ice segments. It
// imports nothing from ice and contains none of ice's format constants: it
// states what a segment built from (or merged down to) a list of documents
// must answer through the public read API.
package model

import (
	"encoding/hex"
	"encoding/json"
	"fmt"
	"strings"
)

// Bytes is a byte string that serialises to readable JSON: printable ASCII
// as-is, anything else as "0x<hex>". Lossless in both directions.
type Bytes []byte

func (b Bytes) MarshalJSON() ([]byte, error) {
	printable := !strings.HasPrefix(string(b), "0x")
	for _, c := range b {
		if c < 0x20 || c > 0x7e {
			printable = false
			break
		}
	}
	if printable {
		return json.Marshal(string(b))
	}
	return json.Marshal("0x" + hex.EncodeToString(b))
}

func (b *Bytes) UnmarshalJSON(data []byte) error {
	var s string
	if err := json.Unmarshal(data, &s); err != nil {
		return err
	}
	if strings.HasPrefix(s, "0x") {
		raw, err := hex.DecodeString(s[2:])
		if err != nil {
			return fmt.Errorf("bad hex bytes %q: %v", s, err)
		}
		*b = raw
		return nil
	}
	*b = []byte(s)
	return nil
}

// Loc is one location of a term occurrence as handed to the builder.
type Loc struct {
	F string `json:"f,omitempty"` // field named by the location ("" = the containing field)
	P int    `json:"p"`
	S int    `json:"s"`
	E int    `json:"e"`
}

// Term is one (term, frequency, locations) triple of a field instance.
type Term struct {
	T Bytes `json:"t"`
	N int   `json:"n"` // frequency, >= max(1,len(L))
	L []Loc `json:"l,omitempty"`
}

// Field is one field instance of a document. Its reported length is the sum
// of its term frequencies.
type Field struct {
	Name  string `json:"name"`
	Terms []Term `json:"terms,omitempty"`
	Val   Bytes  `json:"val,omitempty"`
	Store bool   `json:"store,omitempty"`
	NoDV  bool   `json:"nodv,omitempty"` // this instance opts out of doc values although its field name is a doc-value field
}

func (f *Field) Length() int {
	n := 0
	for i := range f.Terms {
		n += f.Terms[i].N
	}
	return n
}

// Doc is an analyzed document: field instances in input order.
type Doc struct {
	Fields []Field `json:"fields,omitempty"`
}

// SDoc is a document together with the norm function its batch was built with.
type SDoc struct {
	D    *Doc
	Norm int
	// DV: the doc-value fields of the batch the document was built in (a field
	// is indexed with doc values in a segment when at least one instance of
	// it in the batch asks for them). nil: use Expect's dv argument.
	DV map[string]bool
}

// ---- observations -------------------------------------------------------

type LocObs struct {
	F string `json:"f"`
	P int    `json:"p"`
	S int    `json:"s"`
	E int    `json:"e"`
}

type PostObs struct {
	Doc  uint64   `json:"doc"`
	Freq int      `json:"freq"`
	Norm uint32   `json:"norm"` // float32 bits
	Locs []LocObs `json:"locs,omitempty"`
}

type TermObs struct {
	Term  Bytes     `json:"term"`
	Count uint64    `json:"count"`
	Posts []PostObs `json:"posts"`
}

type FV struct {
	F string `json:"f"`
	V Bytes  `json:"v"`
}

type StatObs struct {
	Total uint64 `json:"total"`
	Docs  uint64 `json:"docs"`
	Sum   uint64 `json:"sum"`
}

// Obs is everything a segment answers through the public read API.
type Obs struct {
	Count  uint64               `json:"count"`
	Fields []string             `json:"fields"`
	Dicts  map[string][]TermObs `json:"dicts"`
	Stored [][]FV               `json:"stored"`
	DV     [][]FV               `json:"dv"`
	Stats  map[string]StatObs   `json:"stats"`
}

// Terms0 returns the first term's text (nil if the field has no terms).
func (f *Field) Terms0() Bytes {
	if len(f.Terms) == 0 {
		return nil
	}
	return f.Terms[0].T
}
