package model

import (
	"bytes"
	"fmt"
	"math"
	"sort"
)

const IDField = "_id"

// UnknownField is a field name no generated world ever uses.
const UnknownField = "zz_unknown_field"

// NormKinds is the number of norm functions.
const NormKinds = 6

// NormFn returns the norm function of the given kind. All are strictly
// positive for length >= 0.
func NormFn(kind int) func(string, int) float32 {
	switch kind {
	case 0: // the bit pattern the repo's own tests use (subnormal floats)
		return func(_ string, l int) float32 {
			// kept strictly positive and finite for any length (sign and top
			// exponent bit cleared; never the zero pattern)
			b := uint32(l+1) & 0x3fffffff
			if b == 0 {
				b = 1
			}
			return math.Float32frombits(b)
		}
	case 1:
		return func(_ string, l int) float32 { return float32(1 / math.Sqrt(float64(l+1))) }
	case 2:
		return func(_ string, _ int) float32 { return 0.5 }
	case 3: // depends on the field name as well
		return func(f string, l int) float32 { return 1 / float32(1+len(f)+3*l) }
	case 4: // 4 and 5: two closures of ONE function literal (same code, other captured state)
		return boosted(1)
	default:
		return boosted(3)
	}
}

// (not inlined: inlining would give every call site its own copy of the literal)
//
//go:noinline
func boosted(boost float32) func(string, int) float32 {
	return func(_ string, l int) float32 { return boost / float32(1+l) }
}

type Kind int

const (
	Built  Kind = iota // a segment returned by New
	Merged             // a segment written by a merge
)

// BuiltFields is the field list of a segment built from docs: _id first, the
// remaining names sorted.
func BuiltFields(docs []SDoc) []string {
	seen := map[string]bool{IDField: true}
	var rest []string
	for _, sd := range docs {
		for i := range sd.D.Fields {
			n := sd.D.Fields[i].Name
			if !seen[n] {
				seen[n] = true
				rest = append(rest, n)
			}
		}
	}
	sort.Strings(rest)
	return append([]string{IDField}, rest...)
}

// UnionFields is the field list of a merge of segments with the given lists.
func UnionFields(lists ...[]string) []string {
	seen := map[string]bool{IDField: true}
	var rest []string
	for _, l := range lists {
		for _, n := range l {
			if !seen[n] {
				seen[n] = true
				rest = append(rest, n)
			}
		}
	}
	sort.Strings(rest)
	return append([]string{IDField}, rest...)
}

type termAcc struct {
	freq int
	locs []LocObs
}

// Expect computes what a segment holding exactly docs (numbered in order)
// with field list fields must answer. dv says which field names are indexed
// with doc values.
func Expect(docs []SDoc, fields []string, kind Kind, dv map[string]bool) *Obs {
	o := &Obs{
		Count:  uint64(len(docs)),
		Fields: append([]string(nil), fields...),
		Dicts:  map[string][]TermObs{},
		Stored: make([][]FV, len(docs)),
		DV:     make([][]FV, len(docs)),
		Stats:  map[string]StatObs{},
	}
	inList := map[string]bool{}
	for _, f := range fields {
		inList[f] = true
	}
	// field -> term -> postings
	post := map[string]map[string][]PostObs{}
	docCount := map[string]uint64{}
	sumTTF := map[string]uint64{}

	for dn, sd := range docs {
		normFn := NormFn(sd.Norm)
		perField := map[string]map[string]*termAcc{}
		fieldLen := map[string]int{}
		carried := map[string]bool{}
		var order []string
		for i := range sd.D.Fields {
			f := &sd.D.Fields[i]
			if !inList[f.Name] {
				panic(fmt.Sprintf("model: document field %q not in field list %v", f.Name, fields))
			}
			if !carried[f.Name] {
				carried[f.Name] = true
				order = append(order, f.Name)
			}
			fieldLen[f.Name] += f.Length()
			m := perField[f.Name]
			if m == nil {
				m = map[string]*termAcc{}
				perField[f.Name] = m
			}
			for j := range f.Terms {
				t := &f.Terms[j]
				acc := m[string(t.T)]
				if acc == nil {
					acc = &termAcc{}
					m[string(t.T)] = acc
				}
				acc.freq += t.N
				for _, l := range t.L {
					name := l.F
					if name == "" {
						name = f.Name
					}
					acc.locs = append(acc.locs, LocObs{F: name, P: l.P, S: l.S, E: l.E})
				}
			}
		}
		for _, fname := range order {
			m := perField[fname]
			norm := math.Float32bits(normFn(fname, fieldLen[fname]))
			if kind == Built || len(m) > 0 {
				docCount[fname]++
			}
			for term, acc := range m {
				if post[fname] == nil {
					post[fname] = map[string][]PostObs{}
				}
				post[fname][term] = append(post[fname][term], PostObs{
					Doc: uint64(dn), Freq: acc.freq, Norm: norm, Locs: acc.locs,
				})
				sumTTF[fname] += uint64(acc.freq)
			}
		}
		// stored: field-list order, input order within a field
		for _, fname := range fields {
			for i := range sd.D.Fields {
				f := &sd.D.Fields[i]
				if f.Name == fname && f.Store {
					o.Stored[dn] = append(o.Stored[dn], FV{F: fname, V: append(Bytes{}, f.Val...)})
				}
			}
		}
		// doc values: field-list order, sorted distinct terms
		docDV := dv
		if sd.DV != nil {
			docDV = sd.DV
		}
		for _, fname := range fields {
			if !docDV[fname] {
				continue
			}
			m := perField[fname]
			terms := make([]string, 0, len(m))
			for t := range m {
				terms = append(terms, t)
			}
			sort.Strings(terms)
			for _, t := range terms {
				o.DV[dn] = append(o.DV[dn], FV{F: fname, V: Bytes(t)})
			}
		}
	}

	for _, fname := range fields {
		m := post[fname]
		terms := make([]string, 0, len(m))
		for t := range m {
			terms = append(terms, t)
		}
		sort.Strings(terms) // Go string order is byte order
		list := make([]TermObs, 0, len(terms))
		for _, t := range terms {
			list = append(list, TermObs{Term: Bytes(t), Count: uint64(len(m[t])), Posts: m[t]})
		}
		o.Dicts[fname] = list
		o.Stats[fname] = StatObs{Total: uint64(len(docs)), Docs: docCount[fname], Sum: sumTTF[fname]}
	}
	o.Stats[UnknownField] = StatObs{}
	o.Dicts[UnknownField] = []TermObs{}
	return o
}

// ---- comparison -----------------------------------------------------------

// Diff returns "" when the observations are equal, otherwise a description of
// the first difference found. skip names sections to ignore ("stats").
func Diff(got, want *Obs, skip ...string) string {
	sk := map[string]bool{}
	for _, s := range skip {
		sk[s] = true
	}
	if got.Count != want.Count {
		return fmt.Sprintf("count: got %d want %d", got.Count, want.Count)
	}
	if !eqStrings(got.Fields, want.Fields) {
		return fmt.Sprintf("fields: got %q want %q", got.Fields, want.Fields)
	}
	names := make([]string, 0, len(want.Dicts))
	for f := range want.Dicts {
		names = append(names, f)
	}
	for f := range got.Dicts {
		if _, ok := want.Dicts[f]; !ok {
			names = append(names, f)
		}
	}
	sort.Strings(names)
	for _, f := range names {
		g, gok := got.Dicts[f]
		w, wok := want.Dicts[f]
		if gok != wok {
			return fmt.Sprintf("dict %q: observed=%v expected=%v", f, gok, wok)
		}
		if d := diffTerms(g, w, sk["counts"]); d != "" {
			return fmt.Sprintf("field %q %s", f, d)
		}
	}
	if !sk["stored"] {
		if d := diffFVs("stored", got.Stored, want.Stored); d != "" {
			return d
		}
	}
	if !sk["dv"] {
		if d := diffFVs("docvalues", got.DV, want.DV); d != "" {
			return d
		}
	}
	if !sk["stats"] {
		names = names[:0]
		for f := range want.Stats {
			names = append(names, f)
		}
		for f := range got.Stats {
			if _, ok := want.Stats[f]; !ok {
				names = append(names, f)
			}
		}
		sort.Strings(names)
		for _, f := range names {
			g, gok := got.Stats[f]
			w, wok := want.Stats[f]
			if gok != wok {
				return fmt.Sprintf("stats %q: observed=%v expected=%v", f, gok, wok)
			}
			if sk["stats.docs"] {
				g.Docs, w.Docs = 0, 0
			}
			if g != w {
				return fmt.Sprintf("stats %q: got %+v want %+v", f, g, w)
			}
		}
	}
	return ""
}

func diffTerms(g, w []TermObs, skipCounts bool) string {
	for i := 0; i < len(g) || i < len(w); i++ {
		if i >= len(g) {
			return fmt.Sprintf("term #%d %q: missing (got %d terms, want %d)", i, string(w[i].Term), len(g), len(w))
		}
		if i >= len(w) {
			return fmt.Sprintf("term #%d %q: unexpected (got %d terms, want %d)", i, string(g[i].Term), len(g), len(w))
		}
		if !bytes.Equal(g[i].Term, w[i].Term) {
			return fmt.Sprintf("term #%d: got %q want %q", i, string(g[i].Term), string(w[i].Term))
		}
		if !skipCounts && g[i].Count != w[i].Count {
			return fmt.Sprintf("term %q entry count: got %d want %d", string(g[i].Term), g[i].Count, w[i].Count)
		}
		if d := DiffPosts(g[i].Posts, w[i].Posts); d != "" {
			return fmt.Sprintf("term %q %s", string(g[i].Term), d)
		}
	}
	return ""
}

// DiffPosts compares two postings lists.
func DiffPosts(g, w []PostObs) string {
	for j := 0; j < len(g) || j < len(w); j++ {
		if j >= len(g) {
			return fmt.Sprintf("posting #%d (doc %d): missing", j, w[j].Doc)
		}
		if j >= len(w) {
			return fmt.Sprintf("posting #%d (doc %d): unexpected", j, g[j].Doc)
		}
		if d := DiffPost(&g[j], &w[j]); d != "" {
			return fmt.Sprintf("posting #%d %s", j, d)
		}
	}
	return ""
}

// DiffPost compares two postings.
func DiffPost(g, w *PostObs) string {
	if g.Doc != w.Doc {
		return fmt.Sprintf("doc: got %d want %d", g.Doc, w.Doc)
	}
	if g.Freq != w.Freq {
		return fmt.Sprintf("(doc %d) freq: got %d want %d", g.Doc, g.Freq, w.Freq)
	}
	if g.Norm != w.Norm {
		return fmt.Sprintf("(doc %d) norm bits: got %#x want %#x", g.Doc, g.Norm, w.Norm)
	}
	if len(g.Locs) != len(w.Locs) {
		return fmt.Sprintf("(doc %d) #locs: got %d want %d", g.Doc, len(g.Locs), len(w.Locs))
	}
	for k := range g.Locs {
		if g.Locs[k] != w.Locs[k] {
			return fmt.Sprintf("(doc %d) locs[%d]: got %+v want %+v", g.Doc, k, g.Locs[k], w.Locs[k])
		}
	}
	return ""
}

func diffFVs(what string, g, w [][]FV) string {
	if len(g) != len(w) {
		return fmt.Sprintf("%s: got %d docs want %d", what, len(g), len(w))
	}
	for d := range g {
		if s := DiffFV(g[d], w[d]); s != "" {
			return fmt.Sprintf("%s doc %d: %s", what, d, s)
		}
	}
	return ""
}

// DiffFV compares two (field,value) sequences.
func DiffFV(g, w []FV) string {
	for i := 0; i < len(g) || i < len(w); i++ {
		if i >= len(g) {
			return fmt.Sprintf("#%d missing %s=%q (got %d values, want %d)", i, w[i].F, string(w[i].V), len(g), len(w))
		}
		if i >= len(w) {
			return fmt.Sprintf("#%d unexpected %s=%q (got %d values, want %d)", i, g[i].F, string(g[i].V), len(g), len(w))
		}
		if g[i].F != w[i].F || !bytes.Equal(g[i].V, w[i].V) {
			return fmt.Sprintf("#%d got %s=%q want %s=%q", i, g[i].F, string(g[i].V), w[i].F, string(w[i].V))
		}
	}
	return ""
}

func eqStrings(a, b []string) bool {
	if len(a) != len(b) {
		return false
	}
	for i := range a {
		if a[i] != b[i] {
			return false
		}
	}
	return true
}
