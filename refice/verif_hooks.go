
package refice

import (
	"io"

	"github.com/RoaringBitmap/roaring"
	segment "github.com/blugelabs/bluge_segment_api"
)

// This file is only compiled with -tags verif. It adds exports used by the
// verification harness in /verif and changes no existing behaviour.

// VerifNew is newWithChunkMode: New with a caller-chosen chunk mode.
func VerifNew(results []segment.Document, normCalc func(string, int) float32,
	chunkMode uint32) (segment.Segment, uint64, error) {
	return newWithChunkMode(results, normCalc, chunkMode)
}

// VerifMerge is mergeSegmentBasesWriter: the merger with a caller-chosen
// chunk mode, writing straight to w (no buffering).
func VerifMerge(segments []segment.Segment, drops []*roaring.Bitmap, w io.Writer,
	chunkMode uint32, closeCh chan struct{}) ([][]uint64, uint64, error) {
	segmentBases := make([]*Segment, len(segments))
	for i, seg := range segments {
		segmentBases[i] = seg.(*Segment)
	}
	return mergeSegmentBasesWriter(segmentBases, drops, w, chunkMode, closeCh)
}

// VerifBuilderPoolWarm takes one object from the builder pool, reports
// whether it has been used by an earlier build (its slices have capacity),
// and puts it back. Evidence only.
func VerifBuilderPoolWarm() bool {
	s := interimPool.Get().(*interim)
	warm := cap(s.Postings) > 0 || cap(s.DictKeys) > 0 || cap(s.tmp0) > 0 || s.builder != nil
	interimPool.Put(s)
	return warm
}
