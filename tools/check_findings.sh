#!/bin/bash
# For every fixed finding with a replay file: the replay must reproduce the violation on a
# scratch worktree of /repo HEAD with the fix commit reverted, and report no violation on HEAD.
export GOFLAGS=-mod=mod GOPROXY=off GOSUMDB=off GOTOOLCHAIN=local CGO_ENABLED=1
cd /verif
python3 - <<'PY' > /tmp/findings.list
import json
for f in json.load(open('/verif/known_findings.json'))['findings']:
    if f.get('replay') and f.get('commit'):
        print(f['commit'], f['replay'])
PY
while read c replay; do
  wt=/tmp/chk-$c
  git -C /repo worktree remove --force $wt 2>/dev/null
  git -C /repo worktree add -q --detach $wt HEAD
  if ! git -C $wt revert --no-commit $c >/dev/null 2>&1; then
    echo "SKIP   $c $replay (the fix cannot be reverted cleanly on HEAD: later commits touch the same lines)"
    git -C /repo worktree remove --force $wt; continue
  fi
  sed "s#=> /repo#=> $wt#" go.mod > /tmp/chk-$c.mod; cp go.sum /tmp/chk-$c.sum
  bin=bin/icesim-chk-$c
  if grep -q '"kind": "race"' $replay; then
    go build -race -modfile=/tmp/chk-$c.mod -tags verif -o $bin ./cmd/icesim
    out=$(GORACE="halt_on_error=0 log_path=/verif/bin/chk-race-$c" $bin replay $replay 2>&1 | head -3); rm -f /verif/bin/chk-race-$c.*
  else
    go build -modfile=/tmp/chk-$c.mod -tags verif -o $bin ./cmd/icesim
    out=$($bin replay $replay 2>&1 | head -3)
  fi
  if echo "$out" | grep -q "^VIOLATION"; then r1=reproduces; else r1="DOES-NOT-REPRODUCE"; fi
  out2=$(./check.sh replay $replay 2>&1 | tail -1)
  if echo "$out2" | grep -q "no violation"; then r2=clean; else r2="STILL-FAILS"; fi
  echo "$r1/$r2 $c $replay"
  git -C /repo worktree remove --force $wt; rm -f /tmp/chk-$c.mod /tmp/chk-$c.sum $bin
done < /tmp/findings.list
rm -f /tmp/findings.list
