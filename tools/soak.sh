#!/bin/bash
# multi-seed quick tier, then the thorough tier, on the unchanged tree (false-alarm discipline)
tools/quick_seeds.sh 3 4 5 | tee quick_seeds.out
echo "##### quick seeds done: $(grep -c 'exit=0' quick_seeds.out) ok, $(grep -cE 'exit=[12]' quick_seeds.out) not ok"
VERIF_SEED=2 tools/thorough_all.sh C09 C12 C14 C15 C17 C19 C13 C05 C07 C01 C02 C03 C04 C06 C08 C10 C11 C16 C18
