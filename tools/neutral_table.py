#!/usr/bin/env python3
"""Regenerates the neutral-changes table in DESIGN.md from neutral/*/{meta.json,check_output.txt}."""
import json,glob,re,os
rows=[]
for d in sorted(glob.glob('/verif/neutral/*/')):
    nid=os.path.basename(d.rstrip('/'))
    co=os.path.join(d,'check_output.txt')
    if not os.path.exists(co): continue
    txt=open(co).read()
    checks=re.findall(r'^== (C\d\d) quick: exit (\d+)',txt,flags=re.M)
    alarms=[c for c,e in checks if e!='0']
    meta={}
    mp=os.path.join(d,'meta.json')
    if os.path.exists(mp):
        meta=json.load(open(mp))
    summary=(meta.get('summary') or '').replace('|','/').replace('\n',' ')[:230]
    differs=(meta.get('differs_in') or '').replace('|','/').replace('\n',' ')[:150]
    files=', '.join(meta.get('files',[]))
    rows.append((nid,files,summary,differs,' '.join(c for c,_ in checks) if len(checks)<19 else 'all 19', 'none' if not alarms else '**'+' '.join(alarms)+'**', meta.get('note','')))
out=["| id | files | change | an observer of internals sees | quick checks run | alarms |","|---|---|---|---|---|---|"]
for r in rows:
    out.append("| %s | %s | %s | %s | %s | %s%s |"%(r[0],r[1],r[2],r[3],r[4],r[5],(' – '+r[6]) if r[6] else ''))
out.append("")
out.append("%d neutral changes on file, %d without any alarm."%(len(rows),sum(1 for r in rows if r[5]=='none')))
s=open('/verif/DESIGN.md').read()
s=re.sub(r'<!-- NEUTRAL-TABLE-BEGIN -->.*<!-- NEUTRAL-TABLE-END -->','<!-- NEUTRAL-TABLE-BEGIN -->\n'+'\n'.join(out)+'\n<!-- NEUTRAL-TABLE-END -->',s,flags=re.S)
open('/verif/DESIGN.md','w').write(s)
print(len(rows),'rows')
