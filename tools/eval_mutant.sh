#!/bin/bash
# tools/eval_mutant.sh <mutant-dir containing patch.diff demo_test.go meta.json> <seeded-id> [props...]
# 1. confirms in a scratch worktree that the change compiles, passes the baseline tests,
#    that the demo fails with it and passes without it;
# 2. runs the quick check(s) (default: the property in meta.json) against the changed tree;
# 3. files everything under /verif/seeded/<seeded-id>/.
export GOFLAGS=-mod=mod GOPROXY=off GOSUMDB=off GOTOOLCHAIN=local CGO_ENABLED=1
src=$1; id=$2; shift 2
props="$@"
[ -f $src/patch.diff ] || { echo "no patch in $src"; exit 2; }
prop=$(python3 -c "import json;print(json.load(open('$src/meta.json'))['property'])")
[ -n "$props" ] || props=$prop
wt=/tmp/eval-$id
git -C /repo worktree remove --force $wt 2>/dev/null
git -C /repo worktree add -q --detach $wt HEAD || exit 2
cd $wt
res_apply=ok; git apply $src/patch.diff || res_apply=FAILED
res_base=$(go test -vet=off -count=1 ./... 2>&1 | grep -c '^ok.*ice/v2')
demo=$(grep -o 'func TestDemo[A-Za-z0-9_]*' $src/demo_test.go | head -1 | sed 's/func //')
cp $src/demo_test.go $wt/zz_demo_test.go
res_demo_with=$(go test -vet=off -count=1 -run "^$demo\$" . 2>&1 | tail -1 | cut -c1-60)
git apply -R $src/patch.diff
res_demo_without=$(go test -vet=off -count=1 -run "^$demo\$" . 2>&1 | tail -1 | cut -c1-60)
git apply $src/patch.diff
rm -f $wt/zz_demo_test.go
cd /verif
sed "s#=> /repo#=> $wt#" go.mod > /tmp/eval-$id.mod; cp go.sum /tmp/eval-$id.sum
go build -modfile=/tmp/eval-$id.mod -tags verif -o bin/icesim-eval-$id ./cmd/icesim || { echo BUILD FAILED; exit 2; }
needrace=0; for p in $props; do case $p in C09|C12|C14|C19) needrace=1;; esac; done
if [ $needrace = 1 ]; then
  go build -race -modfile=/tmp/eval-$id.mod -tags verif -o bin/icesim-eval-$id-race ./cmd/icesim
  export ICESIM_RACE_BIN=/verif/bin/icesim-eval-$id-race
fi
mkdir -p seeded/$id
export ICESIM_REPLAY_DIR=/verif/seeded/$id/replays-tmp; rm -rf $ICESIM_REPLAY_DIR
export ICESIM_EVIDENCE_DIR=/tmp/eval-$id.evidence
detected=""
: > seeded/$id/check_output.txt
for p in $props; do
  out=$(VERIF_BUDGET_S=${BUDGET:-150} ./bin/icesim-eval-$id check $p ${TIER:-quick} 2>&1); code=$?
  echo "== $p ${TIER:-quick}: exit $code" >> seeded/$id/check_output.txt
  echo "$out" | cut -c1-600 | head -8 >> seeded/$id/check_output.txt
  [ $code = 1 ] && detected="$detected $p"
  [ $code = 2 ] && detected="$detected $p(HARNESS-ERROR)"
done
# keep one replay file as evidence of detection
first=$(grep -o 'replay=[^ ]*' seeded/$id/check_output.txt | head -1 | cut -d= -f2)
[ -n "$first" ] && [ -f "$first" ] && cp $first seeded/$id/replay.json
cp $src/patch.diff seeded/$id/patch.diff; cp $src/demo_test.go seeded/$id/demo_test.go
python3 - <<PY
import json
m=json.load(open('$src/meta.json'))
m.update({"seeded_id":"$id","confirmed":{"patch_applies":"$res_apply","baseline_tests_pass_with_change":"$res_base"=="1","demo_with_change":"""$res_demo_with""","demo_without_change":"""$res_demo_without"""},
 "checks_run":"$props".split(),"tier":"${TIER:-quick}","detected_by":"$detected".split(),
 "what_i_ran":"tools/eval_mutant.sh: scratch worktree of /repo HEAD, git apply patch.diff, go test ./... (baseline), go test -run $demo with and without the change, then ./bin/icesim check <prop> quick built against the changed tree"})
json.dump(m,open('/verif/seeded/$id/meta.json','w'),indent=1)
print("$id", m["property"], "baseline_ok=%s"%m["confirmed"]["baseline_tests_pass_with_change"], "demo_with=[%s]"%m["confirmed"]["demo_with_change"], "demo_without=[%s]"%m["confirmed"]["demo_without_change"], "DETECTED_BY=", m["detected_by"])
PY
cp /verif/seeded/$id/replays-tmp/harness-error-*.log /verif/seeded/$id/ 2>/dev/null
rm -rf /verif/seeded/$id/replays-tmp
git -C /repo worktree remove --force $wt
rm -rf /tmp/eval-$id.evidence
rm -f /tmp/eval-$id.mod /tmp/eval-$id.sum bin/icesim-eval-$id bin/icesim-eval-$id-race
