#!/bin/bash
# runs the thorough tier of the given properties sequentially (for `vp run`)
./check.sh setup || exit 2
rc=0
for p in "$@"; do
  echo "=== $p thorough (seed ${VERIF_SEED:-default}) $(date +%T)"
  ./check.sh $p thorough; c=$?
  echo "=== $p exit $c"
  [ $c -ne 0 ] && rc=$c
done
exit $rc
