#!/bin/bash
# tools/with_revert.sh <fix-commit> <prop> [tier]
# Builds the harness against a scratch worktree of /repo HEAD with one fix
# commit reverted and runs a check: the check must re-find the defect.
set -e
export GOFLAGS=-mod=mod GOPROXY=off GOSUMDB=off GOTOOLCHAIN=local
c=$1; prop=$2; tier=${3:-quick}
wt=/tmp/ice-revert-$c
git -C /repo worktree remove --force $wt 2>/dev/null || true
git -C /repo worktree add -q --detach $wt HEAD
git -C $wt revert --no-commit $c
cd /verif
sed "s#=> /repo#=> $wt#" go.mod > /tmp/revert-$c.mod
cp go.sum /tmp/revert-$c.sum
go build -modfile=/tmp/revert-$c.mod -tags verif -o bin/icesim-revert-$c ./cmd/icesim
if [ -n "$RACE" ]; then
  CGO_ENABLED=1 go build -race -modfile=/tmp/revert-$c.mod -tags verif -o bin/icesim-revert-$c-race ./cmd/icesim
  export ICESIM_RACE_BIN=/verif/bin/icesim-revert-$c-race
fi
set +e
export ICESIM_REPLAY_DIR=/verif/replays/revert-$c; rm -rf $ICESIM_REPLAY_DIR
export ICESIM_EVIDENCE_DIR=/tmp/revert-$c.evidence
./bin/icesim-revert-$c check $prop $tier 2>&1 | cut -c1-500 | head -${LINES_OUT:-6}
git -C /repo worktree remove --force $wt
rm -rf /tmp/revert-$c.evidence
rm -f /tmp/revert-$c.mod /tmp/revert-$c.sum bin/icesim-revert-$c bin/icesim-revert-$c-race
