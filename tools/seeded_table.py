#!/usr/bin/env python3
"""Regenerates the seeded-changes table in DESIGN.md from seeded/*/meta.json."""
import json,glob,re
rows=[]
obsolete=[]
for f in sorted(glob.glob('/verif/seeded/*/meta.json')):
    m=json.load(open(f))
    if m.get('obsolete'):
        obsolete.append((m['seeded_id'],m.get('note','')))
        continue
    c=m.get('confirmed',{})
    ok = c.get('baseline_tests_pass_with_change') and str(c.get('demo_with_change','')).startswith('FAIL') and str(c.get('demo_without_change','')).startswith('ok')
    rows.append((m['seeded_id'],m['property'],', '.join(m.get('files',[])),m['summary'].replace('|','/')[:160],m['needs'].replace('|','/')[:170],'yes' if ok else 'NO',', '.join(m.get('detected_by',[])) or '**missed**', m.get('tier','quick'), m.get('note','')))
out=["| id | breaks | files | change | needs, to manifest | confirmed (tests pass, demo fails with / passes without) | caught by (tier) |","|---|---|---|---|---|---|---|"]
for r in rows:
    out.append("| %s | %s | %s | %s | %s | %s | %s (%s)%s |"%(r[0],r[1],r[2],r[3],r[4],r[5],r[6],r[7],(' – '+r[8]) if r[8] else ''))
caught=sum(1 for r in rows if r[6]!='**missed**')
out.append("")
out.append("%d seeded changes on file, %d caught by the listed checks."%(len(rows),caught))
for o in obsolete:
    out.append("")
    out.append("%s: %s"%o)
s=open('/verif/DESIGN.md').read()
s=re.sub(r'<!-- SEEDED-TABLE-BEGIN -->.*<!-- SEEDED-TABLE-END -->','<!-- SEEDED-TABLE-BEGIN -->\n'+'\n'.join(out)+'\n<!-- SEEDED-TABLE-END -->',s,flags=re.S)
open('/verif/DESIGN.md','w').write(s)
print(len(rows),'rows,',caught,'caught')
