#!/bin/bash
# tools/eval_neutral.sh <patch.diff> <neutral-id> [props...]
# A NEUTRAL change: a realistic edit to blugelabs/ice that preserves every
# property (refactoring, different locking, different I/O pattern, different
# but valid encoding choices ...). The quick checks must NOT raise an alarm and
# must not break. Builds the harness against a scratch worktree of /repo HEAD
# with the patch applied, runs the quick checks, files the outcome under
# /verif/neutral/<id>/.
export GOFLAGS=-mod=mod GOPROXY=off GOSUMDB=off GOTOOLCHAIN=local CGO_ENABLED=1
patch=$1; id=$2; shift 2
props="$@"
[ -n "$props" ] || props="C01 C02 C03 C04 C05 C06 C07 C08 C09 C10 C11 C12 C13 C14 C15 C16 C17 C18 C19"
wt=/tmp/neutral-$id
git -C /repo worktree remove --force $wt 2>/dev/null
git -C /repo worktree add -q --detach $wt HEAD || exit 2
( cd $wt && git apply $patch ) || { echo "patch does not apply"; git -C /repo worktree remove --force $wt; exit 2; }
base=$(cd $wt && go test -vet=off -count=1 ./... 2>&1 | grep -c '^ok.*ice/v2')
cd /verif
sed "s#=> /repo#=> $wt#" go.mod > /tmp/neutral-$id.mod; cp go.sum /tmp/neutral-$id.sum
go build -modfile=/tmp/neutral-$id.mod -tags verif -o bin/icesim-neutral-$id ./cmd/icesim || { echo BUILD FAILED; exit 2; }
go build -race -modfile=/tmp/neutral-$id.mod -tags verif -o bin/icesim-neutral-$id-race ./cmd/icesim || { echo RACE BUILD FAILED; exit 2; }
export ICESIM_RACE_BIN=/verif/bin/icesim-neutral-$id-race
export ICESIM_REPLAY_DIR=/verif/neutral/$id/replays
export ICESIM_EVIDENCE_DIR=/tmp/neutral-$id.evidence
mkdir -p neutral/$id; rm -rf $ICESIM_REPLAY_DIR
cp $patch neutral/$id/patch.diff
: > neutral/$id/check_output.txt
alarms=""
for p in $props; do
  out=$(VERIF_SEED=${SEED:-1} ./bin/icesim-neutral-$id check $p quick 2>&1); code=$?
  echo "== $p quick: exit $code" >> neutral/$id/check_output.txt
  echo "$out" | cut -c1-1500 | tail -6 >> neutral/$id/check_output.txt
  [ $code != 0 ] && alarms="$alarms $p(exit$code)" && echo "$out" | cut -c1-3000 > neutral/$id/alarm_$p.txt
done
echo "$id baseline_tests_ok=$base ALARMS=[$alarms]"
echo "$id baseline_tests_ok=$base ALARMS=[$alarms]" >> neutral/$id/check_output.txt
[ -z "$alarms" ] && rm -rf $ICESIM_REPLAY_DIR
git -C /repo worktree remove --force $wt
rm -rf /tmp/neutral-$id.evidence
rm -f /tmp/neutral-$id.mod /tmp/neutral-$id.sum bin/icesim-neutral-$id bin/icesim-neutral-$id-race
