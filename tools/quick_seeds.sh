#!/bin/bash
# all quick checks on the unchanged tree for several seeds (false-alarm discipline)
./check.sh setup || exit 2
rc=0
for seed in "$@"; do
  for p in C01 C02 C03 C04 C05 C06 C07 C08 C09 C10 C11 C12 C13 C14 C15 C16 C17 C18 C19; do
    out=$(VERIF_SEED=$seed ./check.sh $p quick 2>&1); c=$?
    echo "seed=$seed $p exit=$c $(echo "$out" | grep '^check' | cut -c1-160)"
    if [ $c -ne 0 ]; then rc=$c; echo "$out" | grep -A2 VIOLATION | head -12; echo "$out" | tail -5; fi
  done
done
exit $rc
