#!/usr/bin/env python3
"""Regenerates /verif/MANIFEST.json from the table below (keeps it schema-valid)."""
import json, subprocess, sys

CLAIMS = {
 "C01": dict(tech="deterministic simulation: seeded build lifecycles (pooled builder, mem/file storage views) checked against an executable reference model",
   text="Seeded exploration: every generated batch (tiny to >2048 documents, repeated fields, composite locations, empty/binary terms, all chunk modes through the verif hook) is built with the real code, observed exhaustively through the public API as returned by New, memory-loaded and file-loaded over the simulated disk, and compared with an independent reference model. Model conformance over seeded cases; no fault or schedule dimension exists for this property. A rare extremes switch adds >127 fields, 32-bit-wide values, kilobyte terms; the giant scenario adds builds of 16 384-66 100 documents.",
   note="Trusted: the reference model (/verif/model, no ice code or constants), rapid as choice source, the input contract enforced by construction.", ref="DESIGN.md §5 C01"),
 "C02": dict(tech="deterministic simulation: seeded merge trees over the simulated disk checked against a reference model (rebuild of survivors)",
   text="Seeded exploration of worlds of 1-3 built segments and up to 3 merges (merges of merges, public Merge API and chunk-mode hook, nil/empty/partial/all deletion bitmaps, mem- and file-backed inputs); every merge output is loaded and compared with the model's rebuild of the surviving documents. Also: zero-input merges, giant merges (>65 536 postings per field), and the lifecycle scenario (index / delete / background merge with racing deletes / restart against a live-document map).",
   note="Trusted: the reference model; statistics and dictionary entry counts are checked under C16/C08.", ref="DESIGN.md §5 C02"),
 "C03": dict(tech="deterministic simulation: seeded merges, DocumentNumbers() compared with the model's numbering and content identity via stored fields",
   text="Same merge worlds as C02 including zero-document inputs and merges where nothing survives; checks outer/inner lengths, the dropped sentinel, consecutive numbering, Count, and that the stored content of every surviving old document is found at its reported new number. The lifecycle scenario re-applies deletions that raced with a background merge through DocumentNumbers() and checks that every live document is found exactly once and no dead one at all.",
   note="Trusted: reference numbering (a 15-line loop over the deletion masks).", ref="DESIGN.md §5 C03"),
 "C04": dict(tech="deterministic simulation: every produced segment persisted to the simulated disk and reloaded memory- and file-backed, self-comparison of full observations",
   text="Every segment of seeded build/merge worlds (including empty batches, zero-survivor merges, merges of empties) is written to a SimWriter and loaded through NewDataBytes and through an io.ReaderAt-backed Data; all observations must be identical to the original and WriteTo's count must equal the bytes received, also for destinations that are themselves buffered writers with caller bytes pending; the aligned scenario grows a segment until its data section or file is an exact multiple of 64 KiB / 1 MiB.",
   note="Trusted: the segment.Data mirror struct (layout asserted by reflection at start-up).", ref="DESIGN.md §5 C04"),
 "C11": dict(tech="deterministic simulation: every byte image received by the simulated disk re-parsed with an independent footer reader and CRC-32 recomputed",
   text="For every write path (built, merged via public API and hook, re-persist of memory-loaded and file-loaded segments) the footer is parsed by an independent 44-byte reader, the CRC-32 of all preceding bytes recomputed, counts/version/chunk mode compared with the loaded segment, and the re-persisted file compared byte for byte.",
   note="Trusted: the footer layout as documented in README.md/footer.go widths; hash/crc32.", ref="DESIGN.md §5 C11"),
 "C16": dict(tech="deterministic simulation: seeded build/merge worlds, CollectionStats compared with the reference model",
   text="CollectionStats of every field and of an unknown field for built, loaded and merged segments against the model's counts; CollectionStats.Merge checked to add component-wise without modifying its argument.",
   note="Trusted: the reference model; generated fields report length = sum of term frequencies (the property's precondition).", ref="DESIGN.md §5 C16"),
}


CLAIMS.update({
 "C05": dict(tech="deterministic simulation: seeded Next/Advance histories with exclusions, flags and ReplaceActual, step-by-step conformance with a reference list model",
   text="Stateful exploration: per case one postings list of a built or merged segment (fixed chunk modes 1-7 so that few documents span many chunks, adaptive mode with >1024 postings, 1-hit lists), an exclusion bitmap (nil/empty/listed/everything/chunk-edge postings), optionally ReplaceActual(sub) before the first step, one of 8 flag combinations and up to 30 Next/Advance steps with non-decreasing targets; every step is compared with the model list, nil must stay nil, Count() must equal the non-excluded postings. Every posting handed out is renumbered by the harness (SetNumber, as the index layer does) before the next step.",
   note="Trusted: reference model; Advance targets are generated strictly above the last returned document (the API contract).", ref="DESIGN.md §5 C05"),
 "C06": dict(tech="deterministic simulation: seeded visit histories on one segment object over block-shaped batches, compared with the reference model",
   text="Batches shaped around the 128-document stored blocks (120-262 documents, documents without any stored value, 6-13 byte values, very short records at the end of a block), built, loaded (memory/file over the simulated disk) and merged (byte-copy and re-encode paths); sequences of up to 24 visits on one segment object including early-stopping visitors, visitors that visit another document from inside the callback, and n = Count, Count+1, 2^40, 2^32+d, 2^63+d.",
   note="Trusted: reference model. The probe counting records within 10 bytes of a block end mirrors the documented record layout (probe only, never a verdict).", ref="DESIGN.md §5 C06"),
 "C07": dict(tech="deterministic simulation: seeded reader/visit-order histories across 1024-document chunks, compared with the reference model",
   text="Readers opened on random subsets/orders of fields (incl. unknown and non-doc-value fields) visit existing documents forwards, backwards, randomly and ping-pong across chunk boundaries on built, loaded and merged segments of up to 4200 documents; each visit must deliver exactly the model's sorted terms for the requested doc-value fields. Batches with holes (whole chunks without values), mixed per-instance doc-value flags, _id with doc values, 16 KiB terms; additionally every document of every segment of seeded merge worlds and of giant segments (>16 384 documents) is compared.",
   note="Trusted: reference model. Document numbers >= Count are not visited (outside the property's quantifier).", ref="DESIGN.md §5 C07"),
 "C08": dict(tech="deterministic simulation: seeded dictionary queries (ranges, automata, lookups) on built and merged segments, compared with the reference model",
   text="Per case up to 4 queries: field (known, unknown, empty name), [start,end) with nil or non-empty bounds drawn around the vocabulary, prefix / accept-all / contains-byte automata implemented by the harness; the enumeration must equal the model's filtered term list with true document counts, nil must stay nil (or the enumeration is abandoned early and closed), Contains and PostingsList (recycling the previous list) must agree for present and absent terms. Giant segments (16 384-66 100 documents, one term carried by every document: completely full bitmap containers) have all dictionaries and entry counts compared with the model.",
   note="Trusted: reference model; harness DFAs.", ref="DESIGN.md §5 C08"),
 "C09": dict(tech="deterministic simulation: seeded baton scheduler interleaving reader tasks, re-entrant visitors and a concurrent merge at storage/callback seams; per-op solo-result oracle; Go race detector under the serialised schedule (baton invisible to the detector)",
   text="2-4 reader tasks (dictionary, postings, stored, doc values, DocsMatchingTerms, stats, persist; visitors that re-enter the segment) plus optionally a merge task share one freshly loaded segment (memory- or file-backed: every storage read, visitor callback and operation boundary is a yield point). The schedule list in the case decides every switch. Every operation must deliver exactly the model's solo result, the merge its solo bytes, no panic/hang; the same cases run in a -race build whose baton uses raw syscalls, so every pair of conflicting accesses ice does not order is reported deterministically. Tasks also observe Size(), Close() what they opened (sometimes twice) or recycle one postings list/iterator; an optional prelude lets a merge run into a storage fault, or be cancelled, before the tasks start. One case in four honours yield points inside critical sections (a task parked while holding the segment lock; if the next task needs that lock the scheduler notices within milliseconds and lets the run continue unscheduled), one merge case in four runs the same merge twice at once, one file-backed case in five injects a transient storage fault during the concurrent phase (then only: no panic, no hang, no race, no lock left, segment reads right afterwards).",
   note="Interleavings are explored at seam granularity, not instruction level; data races between seams are detected by the race detector along explored schedules (no false positives, can miss races on paths not executed). Trusted: reference model, the //go:norace scheduler.", ref="DESIGN.md §5 C09, §2.3-2.4"),
 "C10": dict(tech="deterministic simulation of two code versions sharing a disk: differential observation current vs frozen reference implementation in both directions, plus a committed golden corpus",
   text="Every segment of seeded build/merge worlds is written by the current code and by the frozen reference copy (/verif/refice); each image is loaded memory- and file-backed by both readers and all observations must agree (and agree with the model). 48 committed reference-written files with recorded observations must be reproduced by the current reader alone.",
   note="Trusted: /verif/refice (pinned ice + the format-neutral fix commits listed in refice/ORIGIN); the golden corpus was generated by it and cross-checked against the model.", ref="DESIGN.md §5 C10"),
 "C12": dict(tech="deterministic simulation with exhaustive per-workload fault enumeration: failing writer at every byte offset, fail-once samples, close channel closed at every seam event; a sample of the workloads also under the Go race detector",
   text="Per generated workload (Segment.WriteTo of a built/memory/file view, Merger.WriteTo with buffer sizes 0/1/2/7/64/4096, unbuffered hook merge) the fault-free run fixes the reference bytes; then the simulated writer fails persistently after k bytes for every k in [0,L), fails once at 16 sampled offsets, and for merges the close channel is closed before the call, at every write and every input storage read (inputs are reloaded cold for every execution), and after the last event. Every third failing offset fails with an error that calls itself Temporary(); the simulated file offers Sync(). For public merges a sample of the failing/cancelled executions asks the SAME Merger to write again into the truncated same destination: it may refuse, but success must mean the complete file. Error-or-complete-file oracle; the fault-free output is validated against the model; after a failed attempt a healthy writer must receive the identical file. The lifecycle scenario adds failed persists and cancelled/failed background merges inside an index life cycle; merge-read-fault adds failing input storage during merges; the arguments handed to Merge (drops slice, bitmaps, segments slice) must come back untouched from every failed or cancelled call.",
   note="exhaustive refers to each workload's fault space; workloads are sampled. Writers never return n<len with nil error.", ref="DESIGN.md §5 C12"),
 "C13": dict(tech="deterministic simulation: seeded lookup histories reusing earlier postings lists/iterators/dictionaries/readers across segments and encodings, compared with the reference model",
   text="Histories of up to 30 lookups over 1-5 segments in which each postings lookup may pass any postings list / iterator created earlier (from any segment, 1-hit or general, exhausted or half-consumed) as prealloc, Dictionary objects and open DictionaryIterators are continued across other lookups, one doc-value reader per segment is reused, interleaved with stored-field visits (pooled contexts), earlier postings lists are walked again later, term keys live in one scratch buffer, lookups are sticky (three-step patterns), two dictionary iterators stay open on one Dictionary, twin segments share layouts; each lookup's result must equal the model's, iterators are sometimes created and never stepped before being recycled, and what the optimisation interface (ActualBitmap, DocNum1Hit) reports for every iterator must equal what an iterator made from fresh objects reports. The docvalues scenario (one reader, long visit histories) runs under this check as well.",
   note="Trusted: reference model.", ref="DESIGN.md §5 C13"),
 "C14": dict(tech="deterministic simulation: seeded build histories and baton-scheduled concurrent builders interleaved at document-iterator callbacks; byte-equality oracle; race-detector build",
   text="The target batch is built, then again after each of 0-5 other builds (other shapes, failing builds with an unknown chunk mode), then concurrently with 1-3 other New calls interleaved by the scheduler at every Document.EachField callback; all builds of one (batch, norm, chunk mode) must be byte-identical. The same cases run under -race with the invisible baton. Pool reuse is measured through the verif probe. Two of the six norm functions are closures of one function literal. Scenario fresh-process: the target batch is built in two fresh child processes (as the very first build; after 1-2 other builds, the first usually tiny) and in the long-running shard process - all three byte strings must be equal (state in package-level singletons initialised by the first use in a process).",
   note="sync.Pool contents are not under the simulator's control; reuse is measured (pool-reuse-observed), not forced.", ref="DESIGN.md §5 C14"),
 "C15": dict(tech="deterministic simulation: seeded read/persist/merge histories with before/after snapshots of observations, persisted bytes, backing memory and caller bitmaps (set and serialisation)",
   text="Snapshot of every segment (full observation, persisted bytes, backing slice) and of every caller bitmap (clone and serialised bytes); histories of up to 25 operations (full observations with reuse, postings walks with exclusion bitmaps, WriteTo, merges whose results join the pool, DocsMatchingTerms, stored and doc-value visits, CollectionStats().Merge into a returned value, doc-value readers requested with another segment's Fields() slice); afterwards everything (including CRC/offset/Size accessors) must be identical. Lifecycle scenario included; 40 persist-fault and 120 read-fault workloads run under this check too (merge arguments untouched by failed merges; after a transient storage fault fresh objects read the segment exactly as before).",
   note="Trusted: roaring's Equals/ToBytes.", ref="DESIGN.md §5 C15"),
 "C17": dict(tech="deterministic simulation: metamorphic comparison of flat merges with seeded groupings/bracketings and translated deletions; identity merges",
   text="1-5 leaves (built or merged) with deletion bitmaps are merged flat and in random order-preserving groupings (two or three levels), inner merges either applying their deletions or leaving them to be translated through DocumentNumbers() one level up; all results must be observationally identical including statistics; Merge([X],[nil]) must equal X.",
   note="Needs no model (cross-checks the model used for C02). For a built X, DocumentCount of fields occurring without terms is excluded (the property's own carve-out).", ref="DESIGN.md §5 C17"),
 "C18": dict(tech="deterministic simulation: seeded term lists over built/loaded/merged segments compared with the reference model's union",
   text="Lists of 0-12 (field, term) pairs with repeats, absent terms, unknown fields (incl. the empty name), field switches inside the list and 1-hit terms; absent terms take texts that exist in other fields, lists of 63-300 entries, empty terms passed as nil slices; the returned bitmap must equal the model's union, never error or panic. Lifecycle scenario (deletes resolved per segment) included.",
   note="Trusted: reference model.", ref="DESIGN.md §5 C18"),
 "C19": dict(tech="deterministic simulation with exhaustive per-workload fault enumeration: storage fails from every read index on (5 error kinds: closed, EIO, short read, short read with io.EOF, EINTR) and transiently, with lock invariant and hang detector; a sample of the workloads also under the Go race detector (nothing left behind by a failed call may race with the next use)",
   text="Per generated workload (file-backed segment, program of 3-12 read calls of all kinds) the fault-free run counts R storage reads; then for every j in [0,R] the simulated disk fails from read j on with os.ErrClosed / EIO / short read, and for windows of 1 and 3 reads; oracle: no panic, a call that saw a storage error reports an error or an empty result (or, if it absorbed the failed read, the operation delivers the complete right result), after every call no segment mutex is held and all later calls return (goroutine-state hang detector as backstop), bounded reads per call after a transient fault. after an error the same iterator/reader is used again; DocsMatchingTerms lists span several fields. 5% of workloads additionally use a real temp file closed before each call in turn. A second scenario samples 30-80 fault positions on multi-chunk segments of 1 000-4 000 documents; a third lets the storage of a merge's file-backed inputs fail once or for good at sampled read positions (error, or the identical file). Every read of Load itself is enumerated too. After a transient fault every operation is repeated with fresh objects and must read what the segment holds. Stall watchdog: a shard blocked inside ice (lock, semaphore, channel) for 420 s is reported as a hang.",
   note="exhaustive refers to each workload's fault space; workloads are sampled. Correctness of data returned after a fault is not asserted.", ref="DESIGN.md §5 C19"),
})

PENDING_REASON = "check under construction in this session; not yet claimed"

def main():
    props=[json.loads(l) for l in open('/verif/properties.jsonl')]
    levels={"C12":"fault_enumeration","C19":"fault_enumeration"}
    try:
        commits=subprocess.check_output(["git","-C","/repo","log","--format=%h %s"],text=True).splitlines()
    except Exception:
        commits=[]
    hook_commits=[c.split()[0] for c in commits if c.split(" ",1)[1].startswith("verif:")]
    checks=[]; na=[]
    for p in props:
        pid=p["id"]
        c=CLAIMS.get(pid)
        if c is None:
            na.append({"property_id":pid,"reason":NA.get(pid,PENDING_REASON)})
            continue
        checks.append({
          "property_id":pid,
          "quick_cmd":"./check.sh %s quick"%pid,
          "thorough_cmd":"./check.sh %s thorough"%pid,
          "evidence_file":"/verif/evidence/%s.json"%pid,
          "replay_cmd_template":"./check.sh replay {path}",
          "engine":"icesim",
          "level_claimed":{"category":levels.get(pid,"exploration"),"text":c["text"],"design_ref":c["ref"]},
          "level_note":c["note"],
          "technique":c["tech"],
        })
    m={
     "version":1,
     "setup_cmd":"./check.sh setup",
     "hooks":{"guard":"verif","enable":"go build -tags verif (the harness module replaces github.com/blugelabs/ice/v2 with /repo)",
              "baseline_off_cmd":"cd /repo && GOFLAGS=-mod=mod go test -json -vet=off -count=1 -timeout 25m ./...",
              "source_commits":hook_commits,"add_only":True},
     "engines":[{"name":"icesim","path":"/verif/cmd/icesim","serves_properties":[c["property_id"] for c in checks],
                 "kind_free_text":"deterministic simulator for ice: simulated disk (SimReaderAt/SimWriter) with fault plans, cooperative baton scheduler yielding at storage calls and callbacks, seeded case generation by pgregory.net/rapid with shrinking, explicit JSON replay files, executable reference model, race-detector build with a baton invisible to the detector"}],
     "checks":checks,
     "not_applicable":na,
     "notes":"See DESIGN.md. Exit codes: 0 held, 1 VIOLATION line printed, 2 build/harness trouble. VERIF_SEED selects the seed; VERIF_BUDGET_S caps wall time per shard. known_findings.json lists fixed defects (fix: commits in /repo) and any open findings."
    }
    json.dump(m,open('/verif/MANIFEST.json','w'),indent=1)
    print("claimed:",[c["property_id"] for c in checks],"n/a:",[x["property_id"] for x in na])

NA = {}
if __name__=="__main__":
    main()
