#!/usr/bin/env python3
"""Regenerates /verif/MANIFEST.json from the table below (keeps it schema-valid)."""
import json, subprocess, sys

CLAIMS = {
 "C01": dict(tech="deterministic simulation: seeded build lifecycles (pooled builder, mem/file storage views) checked against an executable reference model",
   text="Seeded exploration: every generated batch (tiny to >2048 documents, repeated fields, composite locations, empty/binary terms, all chunk modes through the verif hook) is built with the real code, observed exhaustively through the public API as returned by New, memory-loaded and file-loaded over the simulated disk, and compared with an independent reference model. Model conformance over seeded cases; no fault or schedule dimension exists for this property.",
   note="Trusted: the reference model (/verif/model, no ice code or constants), rapid as choice source, the input contract enforced by construction.", ref="DESIGN.md §5 C01"),
 "C02": dict(tech="deterministic simulation: seeded merge trees over the simulated disk checked against a reference model (rebuild of survivors)",
   text="Seeded exploration of worlds of 1-3 built segments and up to 3 merges (merges of merges, public Merge API and chunk-mode hook, nil/empty/partial/all deletion bitmaps, mem- and file-backed inputs); every merge output is loaded and compared with the model's rebuild of the surviving documents.",
   note="Trusted: the reference model; statistics and dictionary entry counts are checked under C16/C08.", ref="DESIGN.md §5 C02"),
 "C03": dict(tech="deterministic simulation: seeded merges, DocumentNumbers() compared with the model's numbering and content identity via stored fields",
   text="Same merge worlds as C02 including zero-document inputs and merges where nothing survives; checks outer/inner lengths, the dropped sentinel, consecutive numbering, Count, and that the stored content of every surviving old document is found at its reported new number.",
   note="Trusted: reference numbering (a 15-line loop over the deletion masks).", ref="DESIGN.md §5 C03"),
 "C04": dict(tech="deterministic simulation: every produced segment persisted to the simulated disk and reloaded memory- and file-backed, self-comparison of full observations",
   text="Every segment of seeded build/merge worlds (including empty batches, zero-survivor merges, merges of empties) is written to a SimWriter and loaded through NewDataBytes and through an io.ReaderAt-backed Data; all observations must be identical to the original and WriteTo's count must equal the bytes received.",
   note="Trusted: the segment.Data mirror struct (layout asserted by reflection at start-up).", ref="DESIGN.md §5 C04"),
 "C11": dict(tech="deterministic simulation: every byte image received by the simulated disk re-parsed with an independent footer reader and CRC-32 recomputed",
   text="For every write path (built, merged via public API and hook, re-persist of memory-loaded and file-loaded segments) the footer is parsed by an independent 44-byte reader, the CRC-32 of all preceding bytes recomputed, counts/version/chunk mode compared with the loaded segment, and the re-persisted file compared byte for byte.",
   note="Trusted: the footer layout as documented in README.md/footer.go widths; hash/crc32.", ref="DESIGN.md §5 C11"),
 "C16": dict(tech="deterministic simulation: seeded build/merge worlds, CollectionStats compared with the reference model",
   text="CollectionStats of every field and of an unknown field for built, loaded and merged segments against the model's counts; CollectionStats.Merge checked to add component-wise without modifying its argument.",
   note="Trusted: the reference model; generated fields report length = sum of term frequencies (the property's precondition).", ref="DESIGN.md §5 C16"),
}

PENDING_REASON = "check under construction in this session; not yet claimed"

def main():
    props=[json.loads(l) for l in open('/verif/properties.jsonl')]
    levels={"C12":"fault_enumeration","C19":"fault_enumeration"}
    try:
        commits=subprocess.check_output(["git","-C","/repo","log","--format=%h %s"],text=True).splitlines()
    except Exception:
        commits=[]
    hook_commits=[c.split()[0] for c in commits if c.split(" ",1)[1].startswith("verif:")]
    checks=[]; na=[]
    for p in props:
        pid=p["id"]
        c=CLAIMS.get(pid)
        if c is None:
            na.append({"property_id":pid,"reason":NA.get(pid,PENDING_REASON)})
            continue
        checks.append({
          "property_id":pid,
          "quick_cmd":"./check.sh %s quick"%pid,
          "thorough_cmd":"./check.sh %s thorough"%pid,
          "evidence_file":"/verif/evidence/%s.json"%pid,
          "replay_cmd_template":"./check.sh replay {path}",
          "engine":"icesim",
          "level_claimed":{"category":levels.get(pid,"exploration"),"text":c["text"],"design_ref":c["ref"]},
          "level_note":c["note"],
          "technique":c["tech"],
        })
    m={
     "version":1,
     "setup_cmd":"./check.sh setup",
     "hooks":{"guard":"verif","enable":"go build -tags verif (the harness module replaces github.com/blugelabs/ice/v2 with /repo)",
              "baseline_off_cmd":"cd /repo && GOFLAGS=-mod=mod go test -json -vet=off -count=1 -timeout 25m ./...",
              "source_commits":hook_commits,"add_only":True},
     "engines":[{"name":"icesim","path":"/verif/cmd/icesim","serves_properties":[c["property_id"] for c in checks],
                 "kind_free_text":"deterministic simulator for ice: simulated disk (SimReaderAt/SimWriter) with fault plans, cooperative baton scheduler yielding at storage calls and callbacks, seeded case generation by pgregory.net/rapid with shrinking, explicit JSON replay files, executable reference model, race-detector build with a baton invisible to the detector"}],
     "checks":checks,
     "not_applicable":na,
     "notes":"See DESIGN.md. Exit codes: 0 held, 1 VIOLATION line printed, 2 build/harness trouble. VERIF_SEED selects the seed; VERIF_BUDGET_S caps wall time per shard. known_findings.json lists fixed defects (fix: commits in /repo) and any open findings."
    }
    json.dump(m,open('/verif/MANIFEST.json','w'),indent=1)
    print("claimed:",[c["property_id"] for c in checks],"n/a:",[x["property_id"] for x in na])

NA = {}
if __name__=="__main__":
    main()
